#!/bin/bash
# Build the framework offline from files on disk: shim, harness, CLI (dev profile).
set -eu
cd "$(dirname "$0")"
ROOT="$(pwd)"
export CARGO_NET_OFFLINE=true
mkdir -p "$ROOT/.build" "$ROOT/.work" "$ROOT/evidence"
gcc -O2 -fPIC -shared -o "$ROOT/.build/iomon.so" "$ROOT/shim/iomon.c" -ldl -lpthread
( cd "$ROOT/harness" && cargo build --offline --target-dir "$ROOT/.build/harness" )
( cd /repo && CARGO_PROFILE_DEV_OPT_LEVEL=1 CARGO_PROFILE_DEV_DEBUG=0 cargo build --offline --features verif-hooks,zstd-compression,lzma-compression --target-dir "$ROOT/.build/cli" )
# AddressSanitizer build of the CLI (used by the sanitizer slices; not fatal when it cannot be built).
( cd /repo && CC=clang-14 CFLAGS="-fsanitize=address -fno-omit-frame-pointer" RUSTFLAGS="-Zsanitizer=address -Cforce-frame-pointers=yes" \
    cargo +nightly build --offline --release --target x86_64-unknown-linux-gnu --features verif-hooks,zstd-compression,lzma-compression --target-dir "$ROOT/.build/asan" ) \
  || echo "note: sanitizer build failed; sanitizer slices will be inconclusive"
# Sanity: Blake2b-512 used by the oracles agrees with Python's hashlib.
python3 - <<'PY'
import hashlib
assert hashlib.blake2b(b"").hexdigest().startswith("786a02f742015903c6c6fd852552d272912f4740e15847618a86e217f71f5419")
PY
echo "setup ok"
