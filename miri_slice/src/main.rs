//! Miri slice: small workloads of the library-level engines, run under the Miri
//! interpreter (`cargo +nightly miri run`) to look for undefined behaviour and data
//! races in the code bitar drives (bytes, tokio, blake2, futures) on the paths the
//! properties exercise. The oracles are the same as in the native checks.
#![allow(dead_code)]
include!(concat!(env!("OUT_DIR"), "/mods.rs"));

use checks::layout;
use futures_util::StreamExt;
use inst::{FragPlan, FragSource, PendPlan, WriteFault};
use refimpl::chunker::{self as r1, Algo, Cfg};
use std::sync::Arc;
use util::Rng;

fn to_bitar(cfg: &Cfg) -> bitar::chunker::Config {
    use bitar::chunker::{Config, FilterBits, FilterConfig};
    let f = FilterConfig {
        filter_bits: FilterBits::from_bits(cfg.bits),
        min_chunk_size: cfg.min,
        max_chunk_size: cfg.max,
        window_size: cfg.window,
    };
    match cfg.algo {
        Algo::Fixed => Config::FixedSize(cfg.max),
        Algo::RollSum => Config::RollSum(f),
        Algo::BuzHash => Config::BuzHash(f),
    }
}

/// C09 slice: real chunker over a fragmenting / pending source vs R1.
fn chunker_slice(shard: u64, n: usize) -> Result<usize, String> {
    let mut done = 0;
    for i in 0..n {
        let mut rng = Rng::new(1000 + shard).fork(i as u64);
        let algo = *rng.pick(&[Algo::Fixed, Algo::RollSum, Algo::BuzHash]);
        let w = rng.urange(1, 6);
        let max = w + rng.urange(1, 12);
        let cfg = if algo == Algo::Fixed { Cfg::fixed(rng.urange(1, 9)) } else { Cfg { algo, window: w, min: rng.urange(0, max), max, bits: rng.range(1, 3) as u32 } };
        let len = rng.urange(0, 90);
        let data: Vec<u8> = (0..len).map(|_| *rng.pick(&[0u8, 0, 7, 200])).collect();
        let expect = r1::chunk(&cfg, &data);
        let src = FragSource::new(Arc::new(data.clone()), FragPlan::Random { seed: rng.next_u64(), max: 5 }, PendPlan::Every(3));
        let mut st = to_bitar(&cfg).new_chunker(src);
        let got = exec::block_on_busy(
            async {
                let mut v = Vec::new();
                while let Some(r) = st.next().await {
                    let (o, c) = r.map_err(|e| e.to_string())?;
                    v.push((o as usize, c.len()));
                }
                Ok::<_, String>(v)
            },
            1_000_000,
        )
        .ok_or("hang")??;
        if got != expect {
            return Err(format!("chunker slice: {:?} on {} bytes: {:?} != {:?}", cfg, len, got, expect));
        }
        done += 1;
    }
    Ok(done)
}

/// C03/C13 slice: small layouts through the real planner + executor.
fn reorder_slice(shard: usize, shards: usize) -> Result<usize, String> {
    let mut n = 0;
    let mut err = None;
    for k in 1..=2 {
        layout::enumerate(k, 2, 3, &[1, 2], shard, shards, &mut |l| {
            if err.is_some() {
                return;
            }
            n += 1;
            if let Err(e) = layout::judge_ops(l) {
                err = Some(format!("{}: {}", l.describe(), e));
                return;
            }
            let r = layout::execute(l, l.prior_bytes(), WriteFault::None, if n % 2 == 0 { Some((n as u64, 2, 3)) } else { None });
            if let Err(e) = layout::judge_c03(l, &r).and_then(|_| layout::judge_c13(l, &r)) {
                err = Some(format!("{}: {}", l.describe(), e));
            }
        });
    }
    match err {
        Some(e) => Err(e),
        None => Ok(n),
    }
}

/// C08 slice: IoReader over a fragmenting source.
fn reader_slice(shard: u64, n: usize) -> Result<usize, String> {
    use bitar::archive_reader::{ArchiveReader, IoReader};
    let file: Arc<Vec<u8>> = Arc::new((0..200u32).map(|i| (i * 7 + 3) as u8).collect());
    for i in 0..n {
        let mut rng = Rng::new(2000 + shard).fork(i as u64);
        let cnt = rng.urange(1, 4);
        let ranges: Vec<(u64, usize)> = (0..cnt).map(|_| (rng.urange(0, 150) as u64, rng.urange(1, 30))).collect();
        let mut reader = IoReader::new(FragSource::new(file.clone(), FragPlan::Random { seed: rng.next_u64(), max: 6 }, PendPlan::Every(2)));
        let chunks: Vec<bitar::ChunkOffset> = ranges.iter().map(|&(o, s)| bitar::ChunkOffset::new(o, s)).collect();
        let items = exec::block_on_busy(
            async {
                let mut st = reader.read_chunks(chunks);
                let mut v = Vec::new();
                while let Some(r) = st.next().await {
                    v.push(r.map(|b| b.to_vec()).map_err(|e| e.to_string())?);
                }
                Ok::<_, String>(v)
            },
            1_000_000,
        )
        .ok_or("hang")??;
        for (k, &(o, s)) in ranges.iter().enumerate() {
            if items.get(k).map(|b| &b[..]) != Some(&file[o as usize..o as usize + s]) {
                return Err(format!("reader slice: item {} of {:?} wrong", k, ranges));
            }
        }
    }
    Ok(n)
}

/// C12/C01 slice: the library compress pipeline (spawn_blocking workers + temp file) on
/// a tiny input; Miri's scheduler seed varies the interleaving. Prints the archive digest.
fn compress_slice() -> Result<String, String> {
    let data: Vec<u8> = (0..150u32).map(|i| (i % 5 * 50) as u8).collect();
    let opts = bitar::api::compress::CreateArchiveOptions {
        chunker_config: bitar::chunker::Config::FixedSize(16),
        num_chunk_buffers: 3,
        chunk_hash_length: 8,
        temporary_file_override: None,
        compression: None,
        metadata: Default::default(),
    };
    let rt = tokio::runtime::Builder::new_multi_thread().worker_threads(2).max_blocking_threads(3).build().map_err(|e| e.to_string())?;
    let out = rt.block_on(async {
        let src = FragSource::new(Arc::new(data.clone()), FragPlan::Fixed(40), PendPlan::Never);
        let mut out: Vec<u8> = Vec::new();
        bitar::api::compress::create_archive(src, &mut out, &opts).await.map_err(|e| format!("{:?}", e))?;
        Ok::<_, String>(out)
    })?;
    Ok(util::short_id(&out))
}

fn main() {
    let args: Vec<String> = std::env::args().collect();
    let what = args.get(1).map(|s| s.as_str()).unwrap_or("all");
    let shard: usize = args.get(2).and_then(|s| s.parse().ok()).unwrap_or(0);
    let shards: usize = args.get(3).and_then(|s| s.parse().ok()).unwrap_or(1);
    let n: usize = args.get(4).and_then(|s| s.parse().ok()).unwrap_or(6);
    let r = match what {
        "chunker" => chunker_slice(shard as u64, n).map(|n| format!("cases={}", n)),
        "reorder" => reorder_slice(shard, shards).map(|n| format!("layouts={}", n)),
        "reader" => reader_slice(shard as u64, n).map(|n| format!("cases={}", n)),
        "compress" => compress_slice().map(|d| format!("archive={}", d)),
        "noop" => Ok(String::new()),
        _ => Err("unknown slice".into()),
    };
    match r {
        Ok(s) => println!("MIRI-SLICE-OK {} {}", what, s),
        Err(e) => {
            println!("MIRI-SLICE-FAIL {} {}", what, e);
            std::process::exit(1);
        }
    }
}
