// Generates the module list with absolute paths derived from this crate's location, so
// that a copy of /verif (e.g. a snapshot) includes its own harness sources.
fn main() {
    // Read at run time, not baked into the compiled build script: cargo's fingerprints do
    // not depend on where the workspace lives, so a build script compiled for another copy
    // of /verif can be reused here. VERIF_SLICE_ROOT (set by the harness to this crate's
    // directory) forces a re-run, and with it a rebuild of the crate, whenever the cached
    // artifacts were produced for a different copy — cargo-miri records the working
    // directory of the build in its run info and fails if that directory is gone.
    println!("cargo:rerun-if-env-changed=VERIF_SLICE_ROOT");
    let manifest_dir = std::env::var("CARGO_MANIFEST_DIR").expect("CARGO_MANIFEST_DIR");
    let root = std::path::Path::new(&manifest_dir).parent().unwrap().join("harness/src");
    let r = root.display();
    let mods = format!(
        r#"#[path = "{r}/exec.rs"]
mod exec;
#[path = "{r}/inst.rs"]
mod inst;
#[path = "{r}/util.rs"]
mod util;
mod refimpl {{
    #[path = "{r}/refimpl/buztable.rs"]
    pub mod buztable;
    #[path = "{r}/refimpl/chunker.rs"]
    pub mod chunker;
}}
mod checks {{
    #[path = "{r}/checks/layout.rs"]
    pub mod layout;
}}
"#
    );
    let out = std::path::Path::new(&std::env::var("OUT_DIR").unwrap()).join("mods.rs");
    std::fs::write(out, mods).unwrap();
    println!("cargo:rerun-if-changed=build.rs");
}
