// Generates the module list with absolute paths derived from this crate's location, so
// that a copy of /verif (e.g. a snapshot) includes its own harness sources.
fn main() {
    let root = std::path::Path::new(env!("CARGO_MANIFEST_DIR")).parent().unwrap().join("harness/src");
    let r = root.display();
    let mods = format!(
        r#"#[path = "{r}/exec.rs"]
mod exec;
#[path = "{r}/inst.rs"]
mod inst;
#[path = "{r}/util.rs"]
mod util;
mod refimpl {{
    #[path = "{r}/refimpl/buztable.rs"]
    pub mod buztable;
    #[path = "{r}/refimpl/chunker.rs"]
    pub mod chunker;
}}
mod checks {{
    #[path = "{r}/checks/layout.rs"]
    pub mod layout;
}}
"#
    );
    let out = std::path::Path::new(&std::env::var("OUT_DIR").unwrap()).join("mods.rs");
    std::fs::write(out, mods).unwrap();
    println!("cargo:rerun-if-changed=build.rs");
}
