int iomon_placeholder;
