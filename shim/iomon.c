/*
 * iomon — LD_PRELOAD observer and fault/delay injector for the bita process.
 *
 * Environment:
 *   IOMON_LOG=<path>            binary event log (append)
 *   IOMON_WATCH=<p0>:<p1>:...   absolute paths to watch (index = position)
 *   IOMON_FAULT=<widx>,<k>,<mode>,<arg>[,sticky]
 *        fault on the k-th (0-based, global over all threads) write-type call
 *        (write/pwrite/writev) to watched path widx.
 *        modes: errno (arg = errno value; nothing written, -1 returned)
 *               torn  (arg = t; first t bytes are written, then _exit(137))
 *               exit_before / exit_after (arg ignored; _exit(137))
 *               short (arg = t; only t bytes are written, t returned — a legal
 *                      short write, no error)
 *        ",sticky": every later write to that path fails the same way (errno mode).
 *   IOMON_TRUNC_FAULT=<widx>,<mode>,<arg>   same for ftruncate (errno|exit_before|exit_after)
 *   IOMON_READ_FAULT=<widx>,<k>,<errno>   fail the k-th (0-based) read()/pread() of watched
 *                               path widx once with errno (nothing is read)
 *   IOMON_NS_FAULT=<widx>,<op>,<errno>[,<nth>]  fail the nth (default 1st) unlink / open of
 *                               watched path widx with errno (op = unlink|open)
 *   IOMON_DELAY=<widx>,<seed>,<max_us>,<ops>[;...]  sleep before ops on path widx;
 *        ops is a string of: w (writes) r (reads) o (open) c (copy_file_range/sendfile source)
 *   IOMON_LOGREADS=1            also log reads on watched paths
 *
 * Record layout (little endian, packed):
 *   u32 magic 0x494f4d4e, u32 kind, u64 seq0, u64 seq1, u32 tid, i32 fd, i32 widx,
 *   i64 off, u64 len, i64 ret, i32 err, i32 aux, u32 datalen, data[datalen]
 * seq0 is taken on entry, seq1 on return, from one global counter.
 */
#define _GNU_SOURCE
#include <dlfcn.h>
#include <errno.h>
#include <fcntl.h>
#include <pthread.h>
#include <stdarg.h>
#include <stdint.h>
#include <stdio.h>
#include <stdlib.h>
#include <string.h>
#include <sys/stat.h>
#include <sys/syscall.h>
#include <sys/types.h>
#include <sys/uio.h>
#include <time.h>
#include <unistd.h>

enum {
    K_OPEN = 1, K_WRITE = 2, K_PWRITE = 3, K_LSEEK = 4, K_FTRUNCATE = 5, K_UNLINK = 6,
    K_RENAME = 7, K_CLOSE = 8, K_READ = 9, K_COPY = 10, K_FSYNC = 11, K_FAULT = 12,
    K_TRUNCATE = 13, K_PREAD = 14
};

#define MAXW 8
static char *watch[MAXW];
static int nwatch = 0;
static int log_fd = -1;
static int log_reads = 0;
static pthread_mutex_t log_mu = PTHREAD_MUTEX_INITIALIZER;
static volatile uint64_t g_seq = 0;
static volatile uint64_t wcount[MAXW];
static volatile uint64_t dcount[MAXW];

static int f_widx = -1; static uint64_t f_k = 0; static int f_mode = 0; static long f_arg = 0; static int f_sticky = 0;
static volatile int f_fired = 0;
enum { M_ERRNO = 1, M_TORN = 2, M_EXIT_BEFORE = 3, M_EXIT_AFTER = 4, M_SHORT = 5 };
static int t_widx = -1; static int t_mode = 0; static long t_arg = 0;
static int r_widx = -1; static uint64_t r_k = 0; static int r_errno = 0; static uint64_t r_count = 0;
static int n_widx = -1; static int n_op = 0; static int n_errno = 0; static int n_nth = 1; static int n_count = 0;

static struct { int widx; uint64_t seed; uint64_t max_us; char ops[8]; } delays[MAXW];
static int ndelays = 0;

static ssize_t (*real_write)(int, const void *, size_t);
static ssize_t (*real_pwrite64)(int, const void *, size_t, off64_t);
static ssize_t (*real_writev)(int, const struct iovec *, int);
static ssize_t (*real_read)(int, void *, size_t);
static ssize_t (*real_pread64)(int, void *, size_t, off64_t);
static ssize_t (*real_readv)(int, const struct iovec *, int);
static off64_t (*real_lseek64)(int, off64_t, int);
static int (*real_ftruncate64)(int, off64_t);
static int (*real_truncate64)(const char *, off64_t);
static int (*real_open64)(const char *, int, ...);
static int (*real_openat64)(int, const char *, int, ...);
static int (*real_unlink)(const char *);
static int (*real_unlinkat)(int, const char *, int);
static int (*real_rename)(const char *, const char *);
static int (*real_renameat)(int, const char *, int, const char *);
static int (*real_close)(int);
static int (*real_fsync)(int);
static int (*real_fdatasync)(int);
static ssize_t (*real_copy_file_range)(int, off64_t *, int, off64_t *, size_t, unsigned int);
static ssize_t (*real_sendfile64)(int, int, off64_t *, size_t);

static int initialized = 0;
static pthread_once_t once = PTHREAD_ONCE_INIT;

static uint64_t mix(uint64_t x) {
    x ^= x >> 33; x *= 0xff51afd7ed558ccdULL; x ^= x >> 33; x *= 0xc4ceb9fe1a85ec53ULL; x ^= x >> 33;
    return x;
}

static int mode_of(const char *s) {
    if (!strcmp(s, "errno")) return M_ERRNO;
    if (!strcmp(s, "torn")) return M_TORN;
    if (!strcmp(s, "exit_before")) return M_EXIT_BEFORE;
    if (!strcmp(s, "exit_after")) return M_EXIT_AFTER;
    if (!strcmp(s, "short")) return M_SHORT;
    return 0;
}

static void do_init(void) {
    real_write = dlsym(RTLD_NEXT, "write");
    real_pwrite64 = dlsym(RTLD_NEXT, "pwrite64");
    real_writev = dlsym(RTLD_NEXT, "writev");
    real_read = dlsym(RTLD_NEXT, "read");
    real_pread64 = dlsym(RTLD_NEXT, "pread64");
    real_readv = dlsym(RTLD_NEXT, "readv");
    real_lseek64 = dlsym(RTLD_NEXT, "lseek64");
    real_ftruncate64 = dlsym(RTLD_NEXT, "ftruncate64");
    real_truncate64 = dlsym(RTLD_NEXT, "truncate64");
    real_open64 = dlsym(RTLD_NEXT, "open64");
    real_openat64 = dlsym(RTLD_NEXT, "openat64");
    real_unlink = dlsym(RTLD_NEXT, "unlink");
    real_unlinkat = dlsym(RTLD_NEXT, "unlinkat");
    real_rename = dlsym(RTLD_NEXT, "rename");
    real_renameat = dlsym(RTLD_NEXT, "renameat");
    real_close = dlsym(RTLD_NEXT, "close");
    real_fsync = dlsym(RTLD_NEXT, "fsync");
    real_fdatasync = dlsym(RTLD_NEXT, "fdatasync");
    real_copy_file_range = dlsym(RTLD_NEXT, "copy_file_range");
    real_sendfile64 = dlsym(RTLD_NEXT, "sendfile64");

    const char *w = getenv("IOMON_WATCH");
    if (w) {
        char *dup = strdup(w), *save = NULL;
        for (char *t = strtok_r(dup, ":", &save); t && nwatch < MAXW; t = strtok_r(NULL, ":", &save))
            watch[nwatch++] = strdup(t);
        free(dup);
    }
    const char *lr = getenv("IOMON_LOGREADS");
    log_reads = lr && lr[0] == '1';
    const char *f = getenv("IOMON_FAULT");
    if (f) {
        char buf[128]; strncpy(buf, f, sizeof buf - 1); buf[sizeof buf - 1] = 0;
        char *save = NULL; char *t;
        if ((t = strtok_r(buf, ",", &save))) f_widx = atoi(t);
        if ((t = strtok_r(NULL, ",", &save))) f_k = strtoull(t, NULL, 10);
        if ((t = strtok_r(NULL, ",", &save))) f_mode = mode_of(t);
        if ((t = strtok_r(NULL, ",", &save))) f_arg = atol(t);
        if ((t = strtok_r(NULL, ",", &save))) f_sticky = !strcmp(t, "sticky");
        if (!f_mode) f_widx = -1;
    }
    const char *tf = getenv("IOMON_TRUNC_FAULT");
    if (tf) {
        char buf[128]; strncpy(buf, tf, sizeof buf - 1); buf[sizeof buf - 1] = 0;
        char *save = NULL; char *t;
        if ((t = strtok_r(buf, ",", &save))) t_widx = atoi(t);
        if ((t = strtok_r(NULL, ",", &save))) t_mode = mode_of(t);
        if ((t = strtok_r(NULL, ",", &save))) t_arg = atol(t);
        if (!t_mode) t_widx = -1;
    }
    const char *rf = getenv("IOMON_READ_FAULT");
    if (rf) {
        unsigned long long k; int wi, e;
        if (sscanf(rf, "%d,%llu,%d", &wi, &k, &e) == 3 && e > 0) { r_widx = wi; r_k = k; r_errno = e; }
    }
    const char *nf = getenv("IOMON_NS_FAULT");
    if (nf) {
        char buf[128]; strncpy(buf, nf, sizeof buf - 1); buf[sizeof buf - 1] = 0;
        char *save = NULL; char *t;
        if ((t = strtok_r(buf, ",", &save))) n_widx = atoi(t);
        if ((t = strtok_r(NULL, ",", &save))) n_op = !strcmp(t, "unlink") ? 'u' : !strcmp(t, "open") ? 'o' : 0;
        if ((t = strtok_r(NULL, ",", &save))) n_errno = atoi(t);
        if ((t = strtok_r(NULL, ",", &save))) n_nth = atoi(t);
        if (!n_op || !n_errno) n_widx = -1;
    }
    const char *d = getenv("IOMON_DELAY");
    if (d) {
        char *dup = strdup(d), *save = NULL;
        for (char *e = strtok_r(dup, ";", &save); e && ndelays < MAXW; e = strtok_r(NULL, ";", &save)) {
            int wi; unsigned long long seed, mx; char ops[8] = {0};
            if (sscanf(e, "%d,%llu,%llu,%7s", &wi, &seed, &mx, ops) == 4) {
                delays[ndelays].widx = wi; delays[ndelays].seed = seed; delays[ndelays].max_us = mx;
                strncpy(delays[ndelays].ops, ops, 7); ndelays++;
            }
        }
        free(dup);
    }
    const char *lp = getenv("IOMON_LOG");
    if (lp && real_open64) {
        int fd = real_open64(lp, O_WRONLY | O_CREAT | O_APPEND | O_CLOEXEC, 0644);
        if (fd >= 0) {
            int hi = fcntl(fd, F_DUPFD_CLOEXEC, 700);
            if (hi >= 0) { real_close(fd); fd = hi; }
            log_fd = fd;
        }
    }
    initialized = 1;
}

static inline void init(void) { if (!initialized) pthread_once(&once, do_init); }

static uint64_t next_seq(void) { return __sync_fetch_and_add(&g_seq, 1); }

static int path_widx(const char *p) {
    for (int i = 0; i < nwatch; i++) if (!strcmp(p, watch[i])) return i;
    return -1;
}

static int fd_widx(int fd) {
    if (nwatch == 0 || fd < 0 || fd == log_fd) return -1;
    char link[64], buf[4096];
    snprintf(link, sizeof link, "/proc/self/fd/%d", fd);
    ssize_t n = readlink(link, buf, sizeof buf - 1);
    if (n <= 0) return -1;
    buf[n] = 0;
    return path_widx(buf);
}

static int abs_path_widx(int dirfd, const char *path) {
    if (nwatch == 0 || !path) return -1;
    if (path[0] == '/') return path_widx(path);
    char buf[8192];
    if (dirfd == AT_FDCWD) {
        if (!getcwd(buf, sizeof buf - 2)) return -1;
    } else {
        char link[64]; snprintf(link, sizeof link, "/proc/self/fd/%d", dirfd);
        ssize_t n = readlink(link, buf, 4096); if (n <= 0) return -1; buf[n] = 0;
    }
    size_t l = strlen(buf);
    if (l + 1 + strlen(path) + 1 > sizeof buf) return -1;
    buf[l] = '/'; strcpy(buf + l + 1, path);
    return path_widx(buf);
}

struct __attribute__((packed)) rec {
    uint32_t magic, kind; uint64_t seq0, seq1; uint32_t tid; int32_t fd, widx;
    int64_t off; uint64_t len; int64_t ret; int32_t err, aux; uint32_t datalen;
};

static void log_rec(uint32_t kind, uint64_t seq0, int fd, int widx, int64_t off, uint64_t len,
                    int64_t ret, int err, int aux, const void *data, uint32_t datalen) {
    if (log_fd < 0) return;
    struct rec r;
    r.magic = 0x494f4d4e; r.kind = kind; r.seq0 = seq0; r.tid = (uint32_t)syscall(SYS_gettid);
    r.fd = fd; r.widx = widx; r.off = off; r.len = len; r.ret = ret; r.err = err; r.aux = aux;
    r.datalen = datalen;
    struct iovec iov[2] = {{&r, sizeof r}, {(void *)data, datalen}};
    pthread_mutex_lock(&log_mu);
    r.seq1 = next_seq();
    if (real_writev) {
        ssize_t w = real_writev(log_fd, iov, datalen ? 2 : 1);
        (void)w;
    }
    pthread_mutex_unlock(&log_mu);
}

static void maybe_delay(int widx, char op) {
    for (int i = 0; i < ndelays; i++) {
        if (delays[i].widx == widx && strchr(delays[i].ops, op) && delays[i].max_us > 0) {
            uint64_t n = __sync_fetch_and_add(&dcount[widx & (MAXW - 1)], 1);
            uint64_t us = mix(delays[i].seed ^ mix(n + ((uint64_t)op << 32))) % (delays[i].max_us + 1);
            /* a quarter of the operations get no delay at all, to vary relative order */
            if ((mix(delays[i].seed + n) & 3) == 0) us = 0;
            if (us) { struct timespec ts = {us / 1000000, (us % 1000000) * 1000}; nanosleep(&ts, NULL); }
        }
    }
}

/* Decide the fault for this write-type call. Returns mode or 0. */
static int write_fault(int widx, uint64_t *kout) {
    uint64_t k = __sync_fetch_and_add(&wcount[widx & (MAXW - 1)], 1);
    *kout = k;
    if (widx != f_widx) return 0;
    if (k == f_k) { f_fired = 1; return f_mode; }
    if (f_sticky && f_fired && k > f_k && f_mode == M_ERRNO) return M_ERRNO;
    return 0;
}

static void die(void) { _exit(137); }

typedef ssize_t (*wfn)(int fd, const void *buf, size_t n, off64_t off);
static ssize_t do_plain_write(int fd, const void *buf, size_t n, off64_t off) { (void)off; return real_write(fd, buf, n); }
static ssize_t do_pwrite(int fd, const void *buf, size_t n, off64_t off) { return real_pwrite64(fd, buf, n, off); }

static ssize_t watched_write(int kind, int fd, int widx, const void *buf, size_t n, off64_t off, wfn fn) {
    uint64_t seq0 = next_seq();
    uint64_t k;
    int mode = write_fault(widx, &k);
    off64_t pos = (kind == K_PWRITE) ? off : real_lseek64(fd, 0, SEEK_CUR);
    maybe_delay(widx, 'w');
    if (mode == M_ERRNO) {
        log_rec(K_FAULT, seq0, fd, widx, pos, n, -1, (int)f_arg, mode, NULL, 0);
        errno = (int)f_arg;
        return -1;
    }
    if (mode == M_EXIT_BEFORE) {
        log_rec(K_FAULT, seq0, fd, widx, pos, n, 0, 0, mode, NULL, 0);
        die();
    }
    size_t todo = n;
    if (mode == M_TORN || mode == M_SHORT) { if ((size_t)f_arg < todo) todo = (size_t)f_arg; }
    ssize_t ret = todo ? fn(fd, buf, todo, off) : 0;
    int err = ret < 0 ? errno : 0;
    log_rec(kind, seq0, fd, widx, pos, n, ret, err, (int)k, buf, ret > 0 ? (uint32_t)ret : 0);
    if (mode == M_TORN || mode == M_EXIT_AFTER) {
        log_rec(K_FAULT, seq0, fd, widx, pos, n, ret, 0, mode, NULL, 0);
        die();
    }
    if (mode == M_SHORT) log_rec(K_FAULT, seq0, fd, widx, pos, n, ret, 0, mode, NULL, 0);
    if (ret < 0) errno = err;
    return ret;
}

ssize_t write(int fd, const void *buf, size_t n) {
    init();
    int widx = (fd > 2) ? fd_widx(fd) : -1;
    if (widx < 0) return real_write(fd, buf, n);
    return watched_write(K_WRITE, fd, widx, buf, n, 0, do_plain_write);
}

ssize_t pwrite64(int fd, const void *buf, size_t n, off64_t off) {
    init();
    int widx = fd_widx(fd);
    if (widx < 0) return real_pwrite64(fd, buf, n, off);
    return watched_write(K_PWRITE, fd, widx, buf, n, off, do_pwrite);
}
ssize_t pwrite(int fd, const void *buf, size_t n, off_t off) { return pwrite64(fd, buf, n, off); }

ssize_t writev(int fd, const struct iovec *iov, int cnt) {
    init();
    int widx = (fd > 2) ? fd_widx(fd) : -1;
    if (widx < 0) return real_writev(fd, iov, cnt);
    /* Flatten so that the same fault logic applies; semantics of a (possibly short) writev are kept. */
    size_t total = 0;
    for (int i = 0; i < cnt; i++) total += iov[i].iov_len;
    char *tmp = malloc(total ? total : 1);
    size_t o = 0;
    for (int i = 0; i < cnt; i++) { memcpy(tmp + o, iov[i].iov_base, iov[i].iov_len); o += iov[i].iov_len; }
    ssize_t r = watched_write(K_WRITE, fd, widx, tmp, total, 0, do_plain_write);
    int e = errno;
    free(tmp);
    errno = e;
    return r;
}

/* 1 if this read of watched path widx is the one to fail. */
static int read_fault(int widx) {
    if (widx < 0 || widx != r_widx) return 0;
    return __sync_fetch_and_add(&r_count, 1) == r_k;
}

ssize_t read(int fd, void *buf, size_t n) {
    init();
    int widx = (fd > 2) ? fd_widx(fd) : -1;
    if (widx < 0) return real_read(fd, buf, n);
    uint64_t seq0 = next_seq();
    off64_t pos = real_lseek64(fd, 0, SEEK_CUR);
    maybe_delay(widx, 'r');
    if (read_fault(widx)) {
        log_rec(K_FAULT, seq0, fd, widx, pos, n, -1, r_errno, 300, NULL, 0);
        errno = r_errno;
        return -1;
    }
    ssize_t ret = real_read(fd, buf, n);
    int err = ret < 0 ? errno : 0;
    if (log_reads) log_rec(K_READ, seq0, fd, widx, pos, n, ret, err, 0, NULL, 0);
    if (ret < 0) errno = err;
    return ret;
}

ssize_t pread64(int fd, void *buf, size_t n, off64_t off) {
    init();
    int widx = fd_widx(fd);
    if (widx < 0) return real_pread64(fd, buf, n, off);
    uint64_t seq0 = next_seq();
    maybe_delay(widx, 'r');
    if (read_fault(widx)) {
        log_rec(K_FAULT, seq0, fd, widx, off, n, -1, r_errno, 300, NULL, 0);
        errno = r_errno;
        return -1;
    }
    ssize_t ret = real_pread64(fd, buf, n, off);
    int err = ret < 0 ? errno : 0;
    if (log_reads) log_rec(K_PREAD, seq0, fd, widx, off, n, ret, err, 0, NULL, 0);
    if (ret < 0) errno = err;
    return ret;
}
ssize_t pread(int fd, void *buf, size_t n, off_t off) { return pread64(fd, buf, n, off); }

ssize_t readv(int fd, const struct iovec *iov, int cnt) {
    init();
    int widx = (fd > 2) ? fd_widx(fd) : -1;
    if (widx < 0) return real_readv(fd, iov, cnt);
    uint64_t seq0 = next_seq();
    off64_t pos = real_lseek64(fd, 0, SEEK_CUR);
    maybe_delay(widx, 'r');
    ssize_t ret = real_readv(fd, iov, cnt);
    int err = ret < 0 ? errno : 0;
    if (log_reads) log_rec(K_READ, seq0, fd, widx, pos, 0, ret, err, 1, NULL, 0);
    if (ret < 0) errno = err;
    return ret;
}

off64_t lseek64(int fd, off64_t off, int whence) {
    init();
    int widx = (fd > 2) ? fd_widx(fd) : -1;
    if (widx < 0) return real_lseek64(fd, off, whence);
    uint64_t seq0 = next_seq();
    off64_t ret = real_lseek64(fd, off, whence);
    int err = ret < 0 ? errno : 0;
    log_rec(K_LSEEK, seq0, fd, widx, off, 0, ret, err, whence, NULL, 0);
    if (ret < 0) errno = err;
    return ret;
}
off_t lseek(int fd, off_t off, int whence) { return lseek64(fd, off, whence); }

int ftruncate64(int fd, off64_t len) {
    init();
    int widx = fd_widx(fd);
    if (widx < 0) return real_ftruncate64(fd, len);
    uint64_t seq0 = next_seq();
    if (widx == t_widx) {
        if (t_mode == M_ERRNO) { log_rec(K_FAULT, seq0, fd, widx, len, 0, -1, (int)t_arg, 100 + t_mode, NULL, 0); errno = (int)t_arg; return -1; }
        if (t_mode == M_EXIT_BEFORE) { log_rec(K_FAULT, seq0, fd, widx, len, 0, 0, 0, 100 + t_mode, NULL, 0); die(); }
    }
    int ret = real_ftruncate64(fd, len);
    int err = ret < 0 ? errno : 0;
    log_rec(K_FTRUNCATE, seq0, fd, widx, len, 0, ret, err, 0, NULL, 0);
    if (widx == t_widx && t_mode == M_EXIT_AFTER) { log_rec(K_FAULT, seq0, fd, widx, len, 0, ret, 0, 100 + t_mode, NULL, 0); die(); }
    if (ret < 0) errno = err;
    return ret;
}
int ftruncate(int fd, off_t len) { return ftruncate64(fd, len); }

int truncate64(const char *path, off64_t len) {
    init();
    int widx = abs_path_widx(AT_FDCWD, path);
    uint64_t seq0 = next_seq();
    int ret = real_truncate64(path, len);
    int err = ret < 0 ? errno : 0;
    log_rec(K_TRUNCATE, seq0, -1, widx, len, 0, ret, err, 0, path, (uint32_t)strlen(path));
    if (ret < 0) errno = err;
    return ret;
}
int truncate(const char *path, off_t len) { return truncate64(path, len); }

/* 1 if this namespace operation on watched path widx is the one to fail. */
static int ns_fault(int widx, int op) {
    if (widx < 0 || widx != n_widx || op != n_op) return 0;
    return __sync_add_and_fetch(&n_count, 1) == n_nth;
}

static int open_common(int dirfd, const char *path, int flags, mode_t mode, int at) {
    init();
    int widx = abs_path_widx(dirfd, path);
    uint64_t seq0 = next_seq();
    if (widx >= 0) maybe_delay(widx, 'o');
    if (ns_fault(widx, 'o')) {
        log_rec(K_FAULT, seq0, -1, widx, 0, 0, -1, n_errno, 200 + 'o', path, (uint32_t)strlen(path));
        errno = n_errno;
        return -1;
    }
    int ret = at ? real_openat64(dirfd, path, flags, mode) : real_open64(path, flags, mode);
    int err = ret < 0 ? errno : 0;
    if (widx >= 0 || (flags & (O_WRONLY | O_RDWR | O_CREAT | O_TRUNC | O_APPEND)))
        log_rec(K_OPEN, seq0, ret, widx, 0, 0, ret, err, flags, path, path ? (uint32_t)strlen(path) : 0);
    if (ret < 0) errno = err;
    return ret;
}

int open64(const char *path, int flags, ...) {
    mode_t mode = 0;
    if (flags & (O_CREAT | O_TMPFILE)) { va_list ap; va_start(ap, flags); mode = va_arg(ap, mode_t); va_end(ap); }
    return open_common(AT_FDCWD, path, flags, mode, 0);
}
int open(const char *path, int flags, ...) {
    mode_t mode = 0;
    if (flags & (O_CREAT | O_TMPFILE)) { va_list ap; va_start(ap, flags); mode = va_arg(ap, mode_t); va_end(ap); }
    return open_common(AT_FDCWD, path, flags, mode, 0);
}
int openat64(int dirfd, const char *path, int flags, ...) {
    mode_t mode = 0;
    if (flags & (O_CREAT | O_TMPFILE)) { va_list ap; va_start(ap, flags); mode = va_arg(ap, mode_t); va_end(ap); }
    return open_common(dirfd, path, flags, mode, 1);
}
int openat(int dirfd, const char *path, int flags, ...) {
    mode_t mode = 0;
    if (flags & (O_CREAT | O_TMPFILE)) { va_list ap; va_start(ap, flags); mode = va_arg(ap, mode_t); va_end(ap); }
    return open_common(dirfd, path, flags, mode, 1);
}
int creat64(const char *path, mode_t mode) { return open_common(AT_FDCWD, path, O_CREAT | O_WRONLY | O_TRUNC, mode, 0); }
int creat(const char *path, mode_t mode) { return open_common(AT_FDCWD, path, O_CREAT | O_WRONLY | O_TRUNC, mode, 0); }

int unlink(const char *path) {
    init();
    int widx = abs_path_widx(AT_FDCWD, path);
    uint64_t seq0 = next_seq();
    if (ns_fault(widx, 'u')) {
        log_rec(K_FAULT, seq0, -1, widx, 0, 0, -1, n_errno, 200 + 'u', path, (uint32_t)strlen(path));
        errno = n_errno;
        return -1;
    }
    int ret = real_unlink(path);
    int err = ret < 0 ? errno : 0;
    log_rec(K_UNLINK, seq0, -1, widx, 0, 0, ret, err, 0, path, (uint32_t)strlen(path));
    if (ret < 0) errno = err;
    return ret;
}
int unlinkat(int dirfd, const char *path, int flags) {
    init();
    int widx = abs_path_widx(dirfd, path);
    uint64_t seq0 = next_seq();
    if (ns_fault(widx, 'u')) {
        log_rec(K_FAULT, seq0, -1, widx, 0, 0, -1, n_errno, 200 + 'u', path, (uint32_t)strlen(path));
        errno = n_errno;
        return -1;
    }
    int ret = real_unlinkat(dirfd, path, flags);
    int err = ret < 0 ? errno : 0;
    log_rec(K_UNLINK, seq0, -1, widx, 0, 0, ret, err, flags, path, (uint32_t)strlen(path));
    if (ret < 0) errno = err;
    return ret;
}
int rename(const char *a, const char *b) {
    init();
    uint64_t seq0 = next_seq();
    int ret = real_rename(a, b);
    int err = ret < 0 ? errno : 0;
    char buf[8192]; snprintf(buf, sizeof buf, "%s\n%s", a, b);
    log_rec(K_RENAME, seq0, -1, abs_path_widx(AT_FDCWD, a), 0, 0, ret, err, 0, buf, (uint32_t)strlen(buf));
    if (ret < 0) errno = err;
    return ret;
}
int renameat(int da, const char *a, int db, const char *b) {
    init();
    uint64_t seq0 = next_seq();
    int ret = real_renameat(da, a, db, b);
    int err = ret < 0 ? errno : 0;
    char buf[8192]; snprintf(buf, sizeof buf, "%s\n%s", a, b);
    log_rec(K_RENAME, seq0, -1, abs_path_widx(da, a), 0, 0, ret, err, 1, buf, (uint32_t)strlen(buf));
    if (ret < 0) errno = err;
    return ret;
}

int close(int fd) {
    init();
    if (fd == log_fd && log_fd >= 0) { errno = EBADF; return -1; }
    int widx = (fd > 2) ? fd_widx(fd) : -1;
    if (widx < 0) return real_close(fd);
    uint64_t seq0 = next_seq();
    int ret = real_close(fd);
    int err = ret < 0 ? errno : 0;
    log_rec(K_CLOSE, seq0, fd, widx, 0, 0, ret, err, 0, NULL, 0);
    if (ret < 0) errno = err;
    return ret;
}

int fsync(int fd) {
    init();
    int widx = fd_widx(fd);
    uint64_t seq0 = next_seq();
    int ret = real_fsync(fd);
    int err = ret < 0 ? errno : 0;
    if (widx >= 0) log_rec(K_FSYNC, seq0, fd, widx, 0, 0, ret, err, 0, NULL, 0);
    if (ret < 0) errno = err;
    return ret;
}
int fdatasync(int fd) {
    init();
    int widx = fd_widx(fd);
    uint64_t seq0 = next_seq();
    int ret = real_fdatasync(fd);
    int err = ret < 0 ? errno : 0;
    if (widx >= 0) log_rec(K_FSYNC, seq0, fd, widx, 0, 0, ret, err, 1, NULL, 0);
    if (ret < 0) errno = err;
    return ret;
}

ssize_t copy_file_range(int fin, off64_t *oin, int fout, off64_t *oout, size_t len, unsigned int flags) {
    init();
    int win = fd_widx(fin), wout = fd_widx(fout);
    if (!real_copy_file_range) { errno = ENOSYS; return -1; }
    if (win < 0 && wout < 0) return real_copy_file_range(fin, oin, fout, oout, len, flags);
    uint64_t seq0 = next_seq();
    if (win >= 0) maybe_delay(win, 'c');
    off64_t pin = oin ? *oin : real_lseek64(fin, 0, SEEK_CUR);
    ssize_t ret = real_copy_file_range(fin, oin, fout, oout, len, flags);
    int err = ret < 0 ? errno : 0;
    /* fd = source, aux = widx of destination (or -1), off = source position */
    log_rec(K_COPY, seq0, fin, win, pin, len, ret, err, wout, NULL, 0);
    if (ret < 0) errno = err;
    return ret;
}

ssize_t sendfile64(int fout, int fin, off64_t *off, size_t len) {
    init();
    int win = fd_widx(fin), wout = fd_widx(fout);
    if (win < 0 && wout < 0) return real_sendfile64(fout, fin, off, len);
    uint64_t seq0 = next_seq();
    if (win >= 0) maybe_delay(win, 'c');
    off64_t pin = off ? *off : real_lseek64(fin, 0, SEEK_CUR);
    ssize_t ret = real_sendfile64(fout, fin, off, len);
    int err = ret < 0 ? errno : 0;
    log_rec(K_COPY, seq0, fin, win, pin, len, ret, err, wout, NULL, 0);
    if (ret < 0) errno = err;
    return ret;
}
ssize_t sendfile(int fout, int fin, off_t *off, size_t len) { return sendfile64(fout, fin, (off64_t *)off, len); }
