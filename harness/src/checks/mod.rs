pub mod c09;
