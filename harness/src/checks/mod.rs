pub mod c01;
pub mod c09;
pub mod c11;
pub mod c12;
pub mod ccommon;
