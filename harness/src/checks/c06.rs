//! C06 — only chunks missing from seeds and prior output are fetched, each once.
//!
//! Monitor: Range log of the scripted HTTP server serving the real CLI; recording
//! ArchiveReader (read_at / read_chunks arguments) in the library engine for local and
//! HTTP readers. Oracle: R3 — fetch set = source chunks minus chunks the archive's
//! chunker (R1) finds in seeds / prior output; header region read by the two header
//! requests only.
use super::clone_common::{self as cc, Faults, Focus, OutKind, Scenario};
use crate::evidence::{Report, Tier};
use crate::httpd::{self, Server};
use crate::inst::{FragPlan, FragSource, MemFile, PendPlan, RecEvent, RecReader};
use crate::proc::Exit;
use crate::scn;
use crate::util::{par_map, Rng};
use serde_json::{json, Value};
use std::sync::Arc;

pub fn one_scenario(rep: &Report, idx: usize, sc: &Scenario, keep: bool) -> Option<String> {
    let dir = scn::case_dir("C06", idx);
    let res = (|| -> Result<(), String> {
        let b = match cc::build(&dir, sc) {
            Ok(b) => b,
            Err(e) => {
                rep.inconclusive(&e.chars().take(40).collect::<String>());
                return Ok(());
            }
        };
        // Engine A: the real CLI against the scripted server (or local archive: reads
        // recorded as information only).
        cc::prepare_output(&b, sc);
        let o = cc::run_clone(&dir, &b, sc, "clone", &Faults { pacing: (idx % 4) as u8, ..Default::default() });
        rep.eval();
        if o.exit == Exit::Timeout {
            rep.inconclusive("watchdog");
            return Ok(());
        }
        if cc::failed(&o).is_some() {
            rep.inconclusive("clone failed on a valid scenario (judged by C01/C03/C05)");
            return Ok(());
        }
        if sc.http {
            cc::judge_requests(&b, &o).map_err(|e| format!("cli-http: {}", e))?;
            rep.count("cli.range_logs_judged", 1);
            rep.count("cli.requests_observed", o.requests.len() as u64);
            rep.count(&format!("cli.clones.{}", sc.out_kind.name()), 1);
            // The same clone with one chunk-data response cut in mid-body and retries on:
            // the resumed transfer may ask again for what is missing, never for anything else.
            if let Some(victim) = o.requests.iter().find(|r| r.req.n >= 2 && r.body_sent >= 2) {
                let k = 1 + (idx * 7919) % (victim.body_sent - 1);
                cc::prepare_output(&b, sc);
                let oc = cc::run_clone(&dir, &b, sc, "cut", &Faults { pacing: (idx % 4) as u8, cut: Some((victim.req.n, k)), ..Default::default() });
                rep.eval();
                if oc.exit != Exit::Timeout {
                    cc::judge_requests_subset(&b, &oc).map_err(|e| format!("cli-http, response #{} cut after {} bytes, retries on: {}", victim.req.n, k, e))?;
                    rep.count("cli.cut_and_resumed_runs_judged", 1);
                    if oc.requests.len() > o.requests.len() {
                        rep.count("cli.cut_runs_with_a_resumed_request", 1);
                    }
                }
            }
        } else {
            // Bytes read from the local archive file at syscall level: only the header and the
            // stored ranges of the chunks that must be fetched, every byte once.
            judge_local_reads(&o.shim, 1, b.arch.model.parsed.header_len as u64, &b.pred.fetch_ranges).map_err(|e| format!("cli-local: {}", e))?;
            rep.count("cli.local_archive_read_logs_judged", 1);
            let read: u64 = o
                .shim
                .iter()
                .filter(|r| r.widx == 1 && (r.kind == crate::proc::K_READ || r.kind == crate::proc::K_PREAD) && r.ret > 0)
                .map(|r| r.ret as u64)
                .sum();
            let want: u64 = b.pred.fetch_ranges.iter().map(|x| x.1 as u64).sum::<u64>() + b.arch.model.parsed.header_len as u64;
            rep.count("cli.local_archive_bytes_read(info)", read);
            rep.count("cli.local_archive_bytes_needed(info)", want);
        }
        // Engine B: library with a recording reader, local and HTTP.
        let uses_prior = matches!(sc.out_kind, OutKind::InPlace | OutKind::BlockDev);
        let mut seeds: Vec<Arc<Vec<u8>>> = Vec::new();
        if let Some(s) = &b.stdin_seed {
            seeds.push(Arc::new(s.clone()));
        }
        for s in &b.seeds {
            seeds.push(Arc::new(s.clone()));
        }
        let rt = crate::exec::rt_multi(2);
        let archive = Arc::new(b.arch.bytes.clone());
        for which in ["lib-io", "lib-http"] {
            let out = MemFile::new(if uses_prior { b.prior.clone().unwrap_or_default() } else { Vec::new() });
            let (log, r) = if which == "lib-io" {
                let rr = RecReader::new(bitar::archive_reader::IoReader::new(FragSource::new(
                    archive.clone(),
                    FragPlan::Random { seed: idx as u64 + 3, max: 5000 },
                    PendPlan::Every(6),
                )));
                let log = rr.log.clone();
                (log, crate::util::catch(|| rt.block_on(crate::lib_drv::clone_with(rr, &seeds, 3, out, uses_prior))).and_then(|x| x))
            } else {
                let server = Server::start(archive.clone(), httpd::well_behaved());
                let rr = RecReader::new(crate::lib_drv::http_reader(&server.url(), 0)?);
                let log = rr.log.clone();
                let r = crate::util::catch(|| rt.block_on(crate::lib_drv::clone_with(rr, &seeds, 3, out, uses_prior))).and_then(|x| x);
                (log, r)
            };
            rep.eval();
            let (file, _) = match r {
                Ok(x) => x,
                Err(_) => {
                    rep.inconclusive("library clone failed on a valid scenario (judged by C01/C03)");
                    continue;
                }
            };
            let _ = file;
            let log = log.lock().unwrap().clone();
            let hdr = b.arch.model.parsed.header_len;
            let read_ats: Vec<(u64, usize)> = log
                .iter()
                .filter_map(|e| match e {
                    RecEvent::ReadAt { offset, size, .. } => Some((*offset, *size)),
                    _ => None,
                })
                .collect();
            if read_ats != vec![(0u64, 14usize), (14, hdr - 14)] {
                return Err(format!("{}: read_at calls {:?}, expected the two header reads [(0,14),(14,{})]", which, read_ats, hdr - 14));
            }
            let mut ranges: Vec<(u64, usize)> = Vec::new();
            let mut calls = 0;
            for e in &log {
                if let RecEvent::ReadChunks { ranges: r } = e {
                    calls += 1;
                    ranges.extend(r.iter().copied());
                }
            }
            let want: Vec<(u64, usize)> = b.pred.fetch_ranges.clone();
            if ranges != want {
                let extra: Vec<_> = ranges.iter().filter(|r| !want.contains(r)).take(3).collect();
                let missing: Vec<_> = want.iter().filter(|r| !ranges.contains(r)).take(3).collect();
                return Err(format!(
                    "{}: read_chunks asked for {} ranges, R3 expects {}; not expected: {:?}; not requested: {:?}",
                    which,
                    ranges.len(),
                    want.len(),
                    extra,
                    missing
                ));
            }
            if calls != 1 {
                return Err(format!("{}: read_chunks called {} times", which, calls));
            }
            rep.count(&format!("{}.reader_logs_judged", which), 1);
            rep.count("lib.ranges_observed", ranges.len() as u64);
        }
        let total = b.arch.model.parsed.dict.descs.len();
        if !b.pred.fetch.is_empty() && b.pred.fetch.len() < total {
            rep.nontrivial(format!("{}#{}", sc.key(), idx));
        }
        rep.sample_if(idx % 29 == 0, || {
            json!({"scenario": sc.to_json(), "descriptors": total, "to_fetch": b.pred.fetch.len(),
                   "from_prior": b.pred.from_prior.len(), "from_seeds": b.pred.from_seeds.iter().map(|s| s.len()).collect::<Vec<_>>(),
                   "ranges_seen_by_server": o.requests.iter().map(|r| r.req.raw_range.clone()).take(6).collect::<Vec<_>>()})
        });
        Ok(())
    })();
    scn::cleanup(&dir, keep && res.is_err());
    res.err()
}

/// Real loop device as output (thorough tier, when /dev/loop-control is usable).
fn loop_device_cases(rep: &Report, seed: u64, n: usize) {
    for i in 0..n {
        let mut rng = Rng::new(seed).fork(0x0610 + i as u64);
        let mut sc = cc::gen_scenario(&mut rng, Focus::InPlace, (1, 1), false);
        sc.http = true;
        sc.out_kind = OutKind::InPlace; // command line is the same; the path is a device
        sc.verify_output = false;
        let dir = scn::case_dir("C06", 700_000 + i);
        let r = (|| -> Result<bool, String> {
            let mut b = cc::build(&dir, &sc).map_err(|_| "build".to_string())?;
            let img = dir.join("dev.img");
            let mut content = b.prior.clone().unwrap_or_default();
            let size = ((b.source.len().max(content.len()) + 4096) / 512 + 1) * 512;
            content.resize(size, 0xA5);
            std::fs::write(&img, &content).map_err(|e| e.to_string())?;
            let Some((sysdev, node)) = scn::attach_loop(&img, &dir) else {
                return Ok(false);
            };
            let dev = node.display().to_string();
            let result = (|| -> Result<(), String> {
                // The model must see what the device holds.
                b.prior = Some(content.clone());
                let order: Vec<&[u8]> = b.stdin_seed.iter().map(|s| &s[..]).chain(b.seeds.iter().map(|s| &s[..])).collect();
                b.pred = b.arch.model.predict(b.prior.as_deref(), &order);
                b.out_path = std::path::PathBuf::from(&dev);
                let o = cc::run_clone(&dir, &b, &sc, "clone", &Faults::default());
                rep.eval();
                if !o.exit.ok() {
                    return Err(format!("clone to loop device failed: {}", o.tail));
                }
                cc::judge_requests(&b, &o)?;
                let got = std::fs::read(&dev).map_err(|e| e.to_string())?;
                if got[..b.source.len()] != b.source[..] {
                    return Err("device content differs from the source".into());
                }
                Ok(())
            })();
            let _ = std::fs::remove_file(&node);
            scn::detach_loop(&sysdev);
            result.map(|_| true)
        })();
        match r {
            Ok(true) => rep.count("cli.clones.real_loop_device", 1),
            Ok(false) => rep.inconclusive("no loop device available"),
            Err(e) if e == "build" => rep.inconclusive("scenario build"),
            Err(why) => rep.violation(
                "c06/process/loopdev",
                json!({"why": why, "scenario": sc.to_json()}),
                json!({"engine": "process", "scenario": sc.to_json()}),
            ),
        }
        scn::cleanup(&dir, false);
    }
}

/// Per-byte read coverage of a local archive from the shim's read log (offset + returned
/// length of every read()/pread() on it).
fn judge_local_reads(shim: &[crate::proc::Rec], widx: i32, header_len: u64, fetch: &[(u64, usize)]) -> Result<(), String> {
    let mut reads: Vec<(u64, u64)> = shim
        .iter()
        .filter(|r| r.widx == widx && (r.kind == crate::proc::K_READ || r.kind == crate::proc::K_PREAD) && r.ret > 0 && r.off >= 0)
        .map(|r| (r.off as u64, r.off as u64 + r.ret as u64))
        .collect();
    reads.sort();
    for w in reads.windows(2) {
        if w[1].0 < w[0].1 {
            return Err(format!("archive bytes {}..{} were read more than once (reads {:?} and {:?})", w[1].0, w[0].1.min(w[1].1), w[0], w[1]));
        }
    }
    let mut allowed: Vec<(u64, u64)> = vec![(0, header_len)];
    allowed.extend(fetch.iter().map(|&(o, l)| (o, o + l as u64)));
    allowed.sort();
    for &(a, e) in &reads {
        // every read must lie inside the union of allowed ranges
        let mut pos = a;
        while pos < e {
            match allowed.iter().find(|r| r.0 <= pos && pos < r.1) {
                Some(r) => pos = r.1,
                None => return Err(format!("archive byte {} was read (read {}..{}) although it is neither header nor data of a chunk that has to be fetched", pos, a, e)),
            }
        }
    }
    Ok(())
}

/// Local archives with stored chunks larger than any buffer a reader starts with (1 - 3 MiB,
/// raw and compressed), most chunks supplied by a seed: the read log of the archive file
/// must cover the header and the missing chunks' ranges only, every byte once.
fn big_chunk_local_case(rep: &Report, idx: usize, seed: u64) -> Option<String> {
    use crate::refimpl::chunker::Cfg;
    let mut rng = Rng::new(seed).fork(0x06b0 + idx as u64);
    let dir = scn::case_dir("C06", 600_000 + idx);
    let res = (|| -> Result<(), String> {
        let n = rng.urange(1_100_000, 3_200_000);
        let nchunks = rng.urange(4, 6);
        let tail = rng.urange(1, n - 1);
        let source = rng.bytes(n * nchunks + tail);
        let comp = *rng.pick(&[crate::gen::Comp::None, crate::gen::Comp::None, crate::gen::Comp::Zstd(1)]);
        let mut spec = scn::CompressSpec::new(Cfg::fixed(n), comp, 64);
        if idx % 3 == 2 {
            // a header of more than 1 MiB as well
            let blob_len = rng.urange(1_100_000, 2_500_000);
            spec.metadata_files.push(("blob".into(), rng.bytes(blob_len)));
        }
        let arch = scn::make_archive(&dir, "a", &source, &spec).map_err(|e| format!("inconclusive: {}", e))?;
        // the seed holds every chunk but two
        let missing: Vec<usize> = {
            let mut v: Vec<usize> = (0..=nchunks).collect();
            rng.shuffle(&mut v);
            v.truncate(2);
            v
        };
        let mut seed_data = Vec::new();
        for i in 0..=nchunks {
            if !missing.contains(&i) {
                let (a, e) = (i * n, ((i + 1) * n).min(source.len()));
                // every chunk is followed by a full junk block so that the fixed-size scan of
                // the seed stays aligned
                seed_data.extend_from_slice(&source[a..e]);
                if e - a < n {
                    seed_data.extend(rng.bytes(n - (e - a)));
                }
            }
        }
        let sp = dir.join("seed.bin");
        std::fs::write(&sp, &seed_data).unwrap();
        let pred = arch.model.predict(None, &[&seed_data[..]]);
        let out = dir.join("o.bin");
        let cs = scn::CloneSpec { archive: crate::proc::p(&arch.path), output: out.clone(), seeds: vec![sp], ..Default::default() };
        let mut run = crate::proc::Run::new(&dir, "clone", scn::clone_args(&cs));
        run.watch = vec![out.clone(), arch.path.clone()];
        run.log_reads = true;
        let o = crate::proc::run(&run);
        rep.eval();
        if o.exit == Exit::Timeout {
            return Err("inconclusive: watchdog".into());
        }
        if !o.exit.ok() {
            return Err(format!("inconclusive: clone failed: {}", o.tail()));
        }
        if std::fs::read(&out).map(|x| x != source).unwrap_or(true) {
            return Err("inconclusive: output differs (judged by C01/C02)".into());
        }
        judge_local_reads(&o.shim, 1, arch.model.parsed.header_len as u64, &pred.fetch_ranges)?;
        if pred.fetch_ranges.is_empty() {
            return Err("inconclusive: nothing to fetch".into());
        }
        rep.count("big_chunk_local.read_logs_judged", 1);
        rep.nontrivial(format!("bigchunk:{}:{}#{}", n, comp.describe(), idx));
        Ok(())
    })();
    scn::cleanup(&dir, matches!(&res, Err(e) if !e.starts_with("inconclusive")));
    res.err()
}

pub fn run(tier: Tier, seed: u64) -> i32 {
    let rep = Report::new("C06", "exploration", tier, seed);
    let n = tier.pick(700, 7000);
    let viols = par_map(n, crate::util::ncpu(), |i| {
        let mut rng = Rng::new(seed).fork(0x0600 + i as u64);
        let sc = cc::gen_scenario(&mut rng, Focus::Mixed, (4, 5), true);
        let v = one_scenario(&rep, i, &sc, true);
        (i, sc, v)
    });
    for (i, sc, v) in viols {
        if let Some(why) = v {
            let class: String = why.chars().filter(|c| !c.is_ascii_digit()).take(70).collect();
            rep.violation(
                &format!("c06/{}/{}", sc.out_kind.name(), class.trim()),
                json!({"why": why, "scenario": sc.to_json(), "work_dir": format!("/verif/.work/C06/c{}", i)}),
                json!({"engine": "process", "scenario": sc.to_json()}),
            );
        }
    }
    {
        let nb = tier.pick(6, 60);
        let out = par_map(nb, 4, |i| (i, big_chunk_local_case(&rep, i, seed)));
        for (i, r) in out {
            match r {
                None => {}
                Some(why) if why.starts_with("inconclusive") => rep.inconclusive("big-chunk local case"),
                Some(why) => rep.violation("c06/local/big chunks/archive read log", json!({"why": why}), json!({"engine": "bigchunk", "idx": i, "seed": seed})),
            }
        }
        if rep.counter("big_chunk_local.read_logs_judged") == 0 {
            rep.broken("no read log of a local archive with chunks over 1 MiB was judged".into());
        }
    }
    loop_device_cases(&rep, seed, tier.pick(2, 24));
    if rep.counter("cli.range_logs_judged") == 0 || rep.counter("cli.clones.blockdev") == 0 {
        rep.broken("no Range log judged / no block-device clone observed".into());
    }
    rep.finish(
        "scenarios (archives of all three chunkers, seeds and prior outputs as in C02/C03, output kind in {new file, --force-create, existing file + --seed-output, block device via hook, real loop device when available}) cloned by the real CLI over HTTP: the server's Range log must consist of the two header requests plus requests covering exactly the stored ranges of (source chunks - chunks R1 finds in seeds/prior output), each once; the same scenarios through the library with a recording ArchiveReader (local IoReader over a fragmenting source, HttpReader): read_at = the two header reads, read_chunks = exactly the expected ranges; non-trivial = scenarios where some but not all chunks are fetched",
        &[
            "no transfer faults are injected here (retries are C08's subject)",
            "syscall-level reads of a local archive are recorded as information only (tokio may read ahead)",
        ],
        json!({}),
        false,
    )
}

pub fn replay(v: &Value) -> i32 {
    let r = &v["replay"];
    if r["engine"] == "bigchunk" {
        let rep = Report::new("C06", "exploration", Tier::Quick, r["seed"].as_u64().unwrap_or(1));
        return match big_chunk_local_case(&rep, r["idx"].as_u64().unwrap_or(0) as usize, r["seed"].as_u64().unwrap_or(1)) {
            Some(w) if !w.starts_with("inconclusive") => {
                println!("replay: VIOLATED: {}", w);
                println!("VIOLATION property=C06 replay=(replayed)");
                1
            }
            other => {
                println!("replay: property held on this case ({:?})", other);
                0
            }
        };
    }
    let mut rep = Report::new("C06", "exploration", Tier::Quick, 0);
    rep.replay_mode = true;
    match one_scenario(&rep, 900_000, &Scenario::from_json(&r["scenario"]), false) {
        Some(w) => {
            println!("replay: VIOLATED: {}", w);
            println!("VIOLATION property=C06 replay=(replayed)");
            1
        }
        None => {
            println!("replay: property held on this case");
            0
        }
    }
}
