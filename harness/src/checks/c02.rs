//! C02 — seeds never change what a clone produces.
//!
//! Monitor: exit status and output bytes of the real `bita clone --seed ...` (shim
//! write log kept to name the first wrong write in a witness); library engine for
//! volume on the truncated-hash lookup. Oracle: equality with the archived source.
use super::clone_common::{self as cc, Faults, Focus, Scenario};
use crate::evidence::{Report, Tier};
use crate::exec::block_on_busy;
use crate::gen::Comp;
use crate::inst::{FragPlan, FragSource, MemFile, PendPlan};
use crate::proc::{self, Exit, Run};
use crate::refimpl::chunker::{self as r1, Cfg};
use crate::scn::{self, CloneSpec, CompressSpec};
use crate::util::{b2, first_diff, par_map, Rng};
use futures_util::StreamExt;
use serde_json::{json, Value};
use std::sync::Arc;

fn permutations(n: usize) -> Vec<Vec<usize>> {
    fn rec(cur: &mut Vec<usize>, used: &mut Vec<bool>, out: &mut Vec<Vec<usize>>) {
        if cur.len() == used.len() {
            out.push(cur.clone());
            return;
        }
        for i in 0..used.len() {
            if !used[i] {
                used[i] = true;
                cur.push(i);
                rec(cur, used, out);
                cur.pop();
                used[i] = false;
            }
        }
    }
    let mut out = Vec::new();
    rec(&mut Vec::new(), &mut vec![false; n], &mut out);
    out
}

pub fn one_scenario(rep: &Report, idx: usize, sc: &Scenario, keep: bool) -> Option<String> {
    let dir = scn::case_dir("C02", idx);
    let res = (|| -> Result<(), String> {
        let mut b = match cc::build(&dir, sc) {
            Ok(b) => b,
            Err(e) => {
                rep.inconclusive(&e.chars().take(40).collect::<String>());
                return Ok(());
            }
        };
        // Every order of the seed files for up to 3 seeds.
        let orders = if b.seed_paths.len() <= 3 { permutations(b.seed_paths.len()) } else { vec![(0..b.seed_paths.len()).collect()] };
        let base_paths = b.seed_paths.clone();
        let mut used_any = false;
        let mut rejected_any = false;
        // From R3: did seeds supply something, and did they contain foreign chunks?
        for (si, s) in b.seeds.iter().enumerate() {
            let found = b.arch.model.scan(s);
            let matched = found.iter().filter(|(_, _, k)| b.arch.model.key_to_desc.contains_key(k)).count();
            if matched > 0 {
                used_any = true;
            }
            if matched < found.len() {
                rejected_any = true;
            }
            let _ = si;
        }
        if let Some(s) = &b.stdin_seed {
            let found = b.arch.model.scan(s);
            let matched = found.iter().filter(|(_, _, k)| b.arch.model.key_to_desc.contains_key(k)).count();
            used_any |= matched > 0;
            rejected_any |= matched < found.len();
        }
        for (oi, ord) in orders.iter().enumerate() {
            b.seed_paths = ord.iter().map(|&i| base_paths[i].clone()).collect();
            cc::prepare_output(&b, sc);
            let o = cc::run_clone(&dir, &b, sc, &format!("clone{}", oi), &Faults::default());
            rep.eval();
            if o.exit == Exit::Timeout {
                rep.inconclusive("watchdog");
                continue;
            }
            if cc::failed(&o).is_some() {
                // C02 is conditional on success; failures on valid input are judged by C01/C05.
                rep.inconclusive("clone failed on a valid scenario (judged by C01/C05)");
                continue;
            }
            if let Err(why) = cc::judge_final(&b, sc, &o) {
                // Name the first wrong write for the witness.
                let first_bad = o.writes.iter().position(|(off, d)| {
                    let s = *off as usize;
                    s + d.len() > b.source.len() || b.source[s..s + d.len()] != d[..]
                });
                return Err(format!("{} [seed order {:?}; first wrong write: {:?}]", why, ord, first_bad));
            }
            rep.count("clones_with_seeds_judged", 1);
            rep.count("output_writes_observed", o.writes.len() as u64);
            // The same clone with a transient I/O error on one output write (often while a
            // seed is being consumed): whatever happens, success must still mean "exact".
            if oi == 0 && !o.writes.is_empty() {
                let mut frng = Rng::new(sc.src_seed ^ 0xfa17);
                for fi in 0..2 {
                    let k = frng.usize_below(o.writes.len());
                    cc::prepare_output(&b, sc);
                    let of = cc::run_clone(&dir, &b, sc, &format!("fault{}", fi), &Faults { fault: Some(format!("0,{},errno,{}", k, if fi == 0 { libc::ENOSPC } else { [libc::EIO, libc::EAGAIN, libc::ETIMEDOUT, libc::EPIPE, libc::EROFS, libc::ENOMEM, libc::EBADF, libc::ECONNRESET][(k % 8) as usize] })), ..Default::default() });
                    rep.eval();
                    if of.exit == Exit::Timeout || !of.fault_fired {
                        rep.inconclusive("fault run: watchdog / fault did not fire");
                        continue;
                    }
                    rep.count("clones_with_transient_write_error", 1);
                    if of.exit.ok() {
                        if let Err(why) = cc::judge_final(&b, sc, &of) {
                            return Err(format!("with a transient error on output write #{} the clone reported success but {}", k, why));
                        }
                    }
                }
            }
        }
        rep.count("reused_bytes_predicted", b.pred.reused_bytes);
        rep.seen("seed_shapes", format!("{}{}", sc.seeds.iter().map(|d| d.name()).collect::<Vec<_>>().join("+"), if sc.stdin_seed.is_some() { "+stdin" } else { "" }));
        if used_any && rejected_any {
            rep.nontrivial(format!("{}#{}", sc.key(), idx));
        }
        rep.sample_if(idx % 29 == 0, || {
            json!({"scenario": sc.to_json(), "orders_run": orders.len(), "reused_bytes": b.pred.reused_bytes,
                   "chunks_to_fetch": b.pred.fetch.len(), "source_chunks": b.arch.model.src_chunks.len()})
        });
        Ok(())
    })();
    scn::cleanup(&dir, keep && res.is_err());
    res.err()
}

/// A seed carrying a block whose hash agrees with a source block on the first k bytes
/// only, against an archive that stores more than k hash bytes.
fn near_collision_case(rep: &Report, idx: usize, seed: u64, k: usize) -> Option<String> {
    let dir = scn::case_dir("C02", 500_000 + idx);
    let mut rng = Rng::new(seed).fork(idx as u64);
    let n = rng.urange(8, 64);
    let res = (|| -> Result<(), String> {
        let Some((a, a2)) = cc::near_collision(rng.next_u64(), n, k) else {
            rep.inconclusive("near-collision search failed");
            return Ok(());
        };
        let hash_len = *rng.pick(&[k + 1, k + 4, 16, 64]);
        let hash_len = hash_len.min(64);
        // source: X A Y ; seed: Y A' X
        let x = rng.bytes(n);
        let y = rng.bytes(n);
        let source: Vec<u8> = [x.clone(), a.clone(), y.clone()].concat();
        let seed_stream: Vec<u8> = [y.clone(), a2.clone(), x.clone()].concat();
        let spec = CompressSpec::new(Cfg::fixed(n), Comp::None, hash_len);
        let arch = match scn::make_archive(&dir, "a", &source, &spec) {
            Ok(a) => a,
            Err(e) => {
                rep.inconclusive(&e.chars().take(40).collect::<String>());
                return Ok(());
            }
        };
        if arch.model.has_collision(&source, &[&seed_stream]) {
            rep.inconclusive("collision at the stored hash length");
            return Ok(());
        }
        let sp = dir.join("seed.bin");
        std::fs::write(&sp, &seed_stream).unwrap();
        let out = dir.join("out.bin");
        for via_stdin in [false, true] {
            let _ = std::fs::remove_file(&out);
            let cs = CloneSpec {
                archive: proc::p(&arch.path),
                output: out.clone(),
                seeds: if via_stdin { vec![] } else { vec![sp.clone()] },
                stdin_seed: via_stdin,
                ..Default::default()
            };
            let mut run = Run::new(&dir, "clone", scn::clone_args(&cs));
            if via_stdin {
                run.stdin = Some((seed_stream.clone(), 0));
            }
            let o = proc::run(&run);
            rep.eval();
            if o.exit.ok() {
                let got = std::fs::read(&out).unwrap_or_default();
                if got != source {
                    return Err(format!(
                        "near-collision seed (hashes equal on first {} bytes, archive stores {}) changed the output at byte {:?}",
                        k,
                        hash_len,
                        first_diff(&got, &source)
                    ));
                }
                rep.count("near_collision_clones_correct", 1);
            } else if o.exit == Exit::Timeout {
                rep.inconclusive("watchdog");
            } else {
                rep.inconclusive("clone failed on a valid scenario (judged by C01/C05)");
            }
        }
        rep.nontrivial(format!("nearcollision/k{}/h{}/n{}#{}", k, hash_len, n, idx));
        Ok(())
    })();
    scn::cleanup(&dir, res.is_err());
    res.err()
}

/// Library engine: real chunker over seeds -> verify -> CloneOutput::feed on a MemFile,
/// remaining chunks supplied from the source; many small cases with few chunk
/// identities and all hash lengths. Returns (skipped, seed bytes used, violation).
fn lib_case(seed: u64, i: usize) -> (bool, bool, Option<String>) {
    let mut rng = Rng::new(seed).fork(0x0200_0000 + i as u64);
    let cfg = match rng.below(3) {
        0 => Cfg::fixed(rng.urange(1, 6)),
        _ => crate::gen::gen_small_cfg(&mut rng),
    };
    let hash_len = rng.urange(4, 64);
    let alpha = rng.urange(2, 6) as u64;
    let slen = rng.urange(0, 400);
    let source: Vec<u8> = (0..slen).map(|_| rng.below(alpha) as u8 * 37).collect();
    let chunks = r1::chunk(&cfg, &source);
    let mut idx_map: std::collections::HashMap<Vec<u8>, Vec<u8>> = std::collections::HashMap::new();
    let mut collide = false;
    let mut index = bitar::ChunkIndex::new_empty(hash_len);
    for &(o, l) in &chunks {
        let d = &source[o..o + l];
        let h = b2(d);
        if let Some(prev) = idx_map.insert(h[..hash_len].to_vec(), d.to_vec()) {
            if prev != d {
                collide = true;
            }
        }
        index.add_chunk(bitar::HashSum::from(&h[..]), l, &[o as u64]);
    }
    let nseeds = rng.urange(1, 3);
    let mut seeds: Vec<Vec<u8>> = Vec::new();
    for _ in 0..nseeds {
        let l = rng.urange(0, 500);
        if rng.chance(1, 2) {
            seeds.push((0..l).map(|_| rng.below(alpha) as u8 * 37).collect());
        } else {
            let e = *rng.pick(&crate::gen::EDITS);
            seeds.push(crate::gen::apply_edit(&mut rng, &source, e));
        }
    }
    for s in &seeds {
        for (o, l) in r1::chunk(&cfg, s) {
            let d = &s[o..o + l];
            let h = b2(d);
            if let Some(prev) = idx_map.get(&h[..hash_len]) {
                if prev != d {
                    collide = true;
                }
            }
        }
    }
    if collide {
        return (true, false, None);
    }
    let bcfg = crate::gen::to_bitar_config(&cfg);
    let mf = MemFile::new(Vec::new()).with_chaos(rng.next_u64(), 7, 5);
    let mut output = bitar::CloneOutput::new(mf, index);
    let mut used_bytes = 0usize;
    let r = block_on_busy(
        async {
            for s in &seeds {
                let src = FragSource::new(Arc::new(s.clone()), FragPlan::Random { seed: i as u64, max: 9 }, PendPlan::Every(4));
                let mut st = bcfg.new_chunker(src);
                while let Some(r) = st.next().await {
                    let (_, chunk) = r.map_err(|e| e.to_string())?;
                    used_bytes += output.feed(&chunk.verify()).await.map_err(|e| e.to_string())?;
                }
            }
            // "Fetch" the rest from the source itself.
            for &(o, l) in &chunks {
                let v = bitar::Chunk::from(source[o..o + l].to_vec()).verify();
                output.feed(&v).await.map_err(|e| e.to_string())?;
            }
            Ok::<(), String>(())
        },
        50_000_000,
    );
    let file = output.into_inner();
    let bad = match r {
        None => Some("hang".to_string()),
        Some(Err(e)) => Some(format!("error: {}", e)),
        Some(Ok(())) => {
            let mut data = file.data.clone();
            data.resize(source.len(), 0);
            first_diff(&data, &source).map(|p| {
                format!("output differs from source at byte {} (cfg {}, hash_len {}, source {} bytes, {} seeds)", p, cfg.describe(), hash_len, source.len(), seeds.len())
            })
        }
    };
    (false, used_bytes > 0, bad)
}

fn lib_engine(rep: &Report, seed: u64, cases: usize) {
    let out = par_map(cases / 200, crate::util::ncpu(), |bi| {
        let mut viol: Vec<(String, Value)> = Vec::new();
        let (mut evals, mut used) = (0u64, 0u64);
        for j in 0..200 {
            let i = bi * 200 + j;
            let (skipped, u, bad) = lib_case(seed, i);
            if skipped {
                continue;
            }
            evals += 1;
            used += u as u64;
            if let Some(why) = bad {
                if viol.len() < 3 {
                    viol.push((why, json!({"engine": "lib", "seed": seed, "i": i})));
                }
            }
        }
        (evals, used, viol)
    });
    for (evals, used, viol) in out {
        rep.evals(evals);
        rep.count("lib_cases", evals);
        rep.count("lib_cases_with_seed_bytes_used", used);
        for (why, r) in viol {
            rep.violation("c02/lib/output differs", json!({"why": why}), r);
        }
    }
}

pub fn run(tier: Tier, seed: u64) -> i32 {
    let rep = Report::new("C02", "exploration", tier, seed);
    let n = tier.pick(600, 6000);
    let viols = par_map(n, crate::util::ncpu(), |i| {
        let mut rng = Rng::new(seed).fork(0x0200 + i as u64);
        let sc = cc::gen_scenario(&mut rng, Focus::Seeds, (1, 5), false);
        let v = one_scenario(&rep, i, &sc, true);
        (i, sc, v)
    });
    for (i, sc, v) in viols {
        if let Some(why) = v {
            let class: String = why.split("::").next().unwrap_or("").chars().filter(|c| !c.is_ascii_digit()).take(50).collect();
            rep.violation(
                &format!("c02/process/{}", class.trim()),
                json!({"why": why, "scenario": sc.to_json(), "work_dir": format!("/verif/.work/C02/c{}", i)}),
                json!({"engine": "process", "scenario": sc.to_json(), "idx": i}),
            );
        }
    }
    let nc = tier.pick(24, 120);
    let v = par_map(nc, crate::util::ncpu(), |i| {
        let k = if tier == Tier::Thorough && i % 10 == 9 { 5 } else { 4 };
        (i, k, near_collision_case(&rep, i, seed ^ 0xc011, k))
    });
    for (i, k, v) in v {
        if let Some(why) = v {
            rep.violation(
                "c02/nearcollision/output changed",
                json!({"why": why, "k": k}),
                json!({"engine": "nearcollision", "idx": i, "seed": seed ^ 0xc011, "k": k}),
            );
        }
    }
    lib_engine(&rep, seed, tier.pick(200_000, 3_000_000));
    if rep.counter("clones_with_seeds_judged") == 0 || rep.counter("near_collision_clones_correct") == 0 {
        rep.broken("no seeded clone / no near-collision clone was judged".into());
    }
    rep.finish(
        "process engine: archives made by the real CLI (all three chunkers, hash lengths 4..64, all codecs) cloned by the real CLI with 1-4 seed files (every order for <= 3), optional stdin seed, seeds derived from the source by edits / chunk-level shuffles / same-size-other-content / unrelated / empty; near-collision engine: a seed block whose Blake2 agrees with a source block on the first k=4(5) bytes only, against archives storing more hash bytes; library engine: real chunker over seed streams -> verify -> CloneOutput::feed on an in-memory file with short writes and Pending; verdict: exit 0 => output == source; non-trivial = scenarios in which (per R3) at least one seed chunk is usable and at least one is foreign",
        &[
            "scenarios with a truncated-hash collision at the stored hash length are dropped (counted inconclusive)",
            "the archive used is first checked to reconstruct to the source with the independent decoder R2",
        ],
        json!({}),
        false,
    )
}

pub fn replay(v: &Value) -> i32 {
    let r = &v["replay"];
    let mut rep = Report::new("C02", "exploration", Tier::Quick, 0);
    rep.replay_mode = true;
    let res = match r["engine"].as_str().unwrap_or("") {
        "process" => one_scenario(&rep, 900_000, &Scenario::from_json(&r["scenario"]), false),
        "nearcollision" => near_collision_case(&rep, r["idx"].as_u64().unwrap() as usize, r["seed"].as_u64().unwrap(), r["k"].as_u64().unwrap() as usize),
        _ => lib_case(r["seed"].as_u64().unwrap(), r["i"].as_u64().unwrap() as usize).2,
    };
    match res {
        Some(w) => {
            println!("replay: VIOLATED: {}", w);
            println!("VIOLATION property=C02 replay=(replayed)");
            1
        }
        None => {
            println!("replay: property held on this case");
            0
        }
    }
}
