//! C08 — archive readers deliver exactly the requested bytes despite fragmentation/faults.
//!
//! Fault enumeration at the ArchiveReader boundary. Local reader: IoReader over a
//! source that returns every short-read pattern / Pending. HTTP reader: HttpReader
//! against the scripted server — bodies cut after every offset, repeated cuts,
//! fragmentation at every split point, early end of body, refused connections, for
//! retry budgets 0..3. Oracle: an executable model of "deliver the ranges in order;
//! on a mid-body failure resume at the first byte not yet received, at most `budget`
//! times per request run; otherwise error" — compared with the stream items and with
//! the server's Range log.
use crate::evidence::{Report, Tier};
use crate::exec::block_on_busy;
use crate::httpd::{Action, Server};
use crate::inst::{FragPlan, FragSource, PendPlan};
use crate::util::{par_map, Rng};
use bitar::archive_reader::{ArchiveReader, IoReader};
use bitar::ChunkOffset;
use futures_util::StreamExt;
use serde_json::{json, Value};
use std::sync::Arc;

fn file_bytes(n: usize) -> Vec<u8> {
    (0..n).map(|i| (i * 7 + 3) as u8).collect()
}

#[derive(Clone, Debug)]
enum RangeShape {
    Adjacent,
    Gapped,
    Unordered,
    Repeated,
    Mixed,
}

fn gen_ranges(rng: &mut Rng, file_len: usize, shape: &RangeShape, max_n: usize, max_size: usize) -> Vec<(u64, usize)> {
    let n = rng.urange(1, max_n);
    let mut v = Vec::new();
    let mut pos = rng.urange(0, file_len / 4);
    for _ in 0..n {
        let size = rng.urange(1, max_size);
        match shape {
            RangeShape::Adjacent => {}
            RangeShape::Gapped => pos += rng.urange(1, 5),
            RangeShape::Unordered => pos = rng.urange(0, file_len - max_size - 1),
            RangeShape::Repeated => {
                if !v.is_empty() && rng.chance(1, 2) {
                    let p: (u64, usize) = *rng.pick(&v[..]);
                    v.push(p);
                    continue;
                }
            }
            RangeShape::Mixed => {
                match rng.below(3) {
                    0 => {}
                    1 => pos += rng.urange(1, 9),
                    _ => pos = rng.urange(0, file_len - max_size - 1),
                }
            }
        }
        if pos + size > file_len {
            pos = 0;
        }
        v.push((pos as u64, size));
        pos += size;
    }
    v
}

// ---------------------------------------------------------------------------
// Local reader

fn compositions(n: usize) -> Vec<Vec<usize>> {
    let mut out = Vec::new();
    if n == 0 {
        return vec![vec![]];
    }
    for bits in 0..(1u32 << (n - 1)) {
        let mut v = Vec::new();
        let mut cur = 1;
        for i in 0..n - 1 {
            if bits >> i & 1 == 1 {
                v.push(cur);
                cur = 1;
            } else {
                cur += 1;
            }
        }
        v.push(cur);
        out.push(v);
    }
    out
}

/// Run IoReader::read_chunks (+ read_at) over a fragmenting source; judge.
fn local_case(file: &Arc<Vec<u8>>, ranges: &[(u64, usize)], frag: FragPlan, pend: PendPlan) -> Result<(), String> {
    let file2 = file.clone();
    let ranges2 = ranges.to_vec();
    let (f2, p2) = (frag.clone(), pend.clone());
    let res = crate::util::catch(move || {
        let mut reader = IoReader::new(FragSource::new(file2.clone(), f2.clone(), p2.clone()));
        let chunks: Vec<ChunkOffset> = ranges2.iter().map(|&(o, s)| ChunkOffset::new(o, s)).collect();
        let budget = 10_000 + 200 * ranges2.iter().map(|r| r.1 as u64 + 4).sum::<u64>();
        // What was done with the reader before must not matter: nothing, a read_at elsewhere,
        // or an earlier stream that was dropped after its first item.
        let history = (ranges2.len() + ranges2[0].1 + ranges2[0].0 as usize) % 3;
        let flen = file2.len();
        let items = block_on_busy(
            async {
                if history == 1 && flen >= 4 {
                    let _ = reader.read_at((flen / 2) as u64, (flen / 4).max(1)).await;
                }
                if history == 2 && flen >= 8 {
                    let mut st0 = reader.read_chunks(vec![ChunkOffset::new((flen / 3) as u64, 2), ChunkOffset::new((flen / 3) as u64 + 2, 3)]);
                    let _ = st0.next().await;
                    drop(st0);
                }
                let mut st = reader.read_chunks(chunks);
                let mut items: Vec<Result<Vec<u8>, String>> = Vec::new();
                while let Some(r) = st.next().await {
                    let stop = r.is_err();
                    items.push(r.map(|b| b.to_vec()).map_err(|e| e.to_string()));
                    if stop || items.len() > ranges2.len() + 2 {
                        break;
                    }
                }
                items
            },
            budget,
        );
        // read_at for the first range as well
        let mut reader2 = IoReader::new(FragSource::new(file2, f2, p2));
        let (o, s) = ranges2[0];
        let single = block_on_busy(async { reader2.read_at(o, s).await.map(|b| b.to_vec()).map_err(|e| e.to_string()) }, budget);
        (items, single)
    })?;
    let (items, single) = res;
    let items = items.ok_or("read_chunks stream did not finish (hang)")?;
    let single = single.ok_or("read_at did not finish (hang)")?;
    let flen = file.len() as u64;
    let mut expect_err = false;
    let mut k = 0;
    for &(o, s) in ranges {
        if o + s as u64 > flen {
            expect_err = true;
            break;
        }
        match items.get(k) {
            Some(Ok(b)) => {
                if b[..] != file[o as usize..o as usize + s] {
                    return Err(format!("item {} is not the bytes of range {}+{} (got {} bytes)", k, o, s, b.len()));
                }
            }
            Some(Err(e)) => return Err(format!("item {} is an error on a readable range: {}", k, e)),
            None => return Err(format!("stream ended after {} of {} items", k, ranges.len())),
        }
        k += 1;
    }
    if expect_err {
        match items.get(k) {
            Some(Err(_)) => {}
            Some(Ok(b)) => return Err(format!("range {} extends past the end of the archive but an Ok item of {} bytes was delivered", k, b.len())),
            None => return Err("range extends past the end of the archive but the stream just ended".into()),
        }
    } else if items.len() != ranges.len() {
        return Err(format!("{} items for {} ranges", items.len(), ranges.len()));
    }
    let (o, s) = ranges[0];
    if o + s as u64 <= flen {
        match single {
            Ok(b) if b[..] == file[o as usize..o as usize + s] => {}
            Ok(b) => return Err(format!("read_at({}, {}) returned {} wrong/short bytes", o, s, b.len())),
            Err(e) => return Err(format!("read_at({}, {}) failed: {}", o, s, e)),
        }
    } else if single.is_ok() {
        return Err("read_at past the end of the archive returned Ok".into());
    }
    Ok(())
}

/// Parameters of the i-th random local-reader case (regenerated for replay).
fn local_random_params(seed: u64, i: usize) -> (Arc<Vec<u8>>, Vec<(u64, usize)>, FragPlan, PendPlan, bool) {
    let mut rng = Rng::new(seed).fork(0x0800_0000 + i as u64);
    let flen = rng.urange(40, 3000);
    let file = Arc::new(file_bytes(flen));
    let shape = match rng.below(5) {
        0 => RangeShape::Adjacent,
        1 => RangeShape::Gapped,
        2 => RangeShape::Unordered,
        3 => RangeShape::Repeated,
        _ => RangeShape::Mixed,
    };
    let mut ranges = gen_ranges(&mut rng, flen, &shape, 8, (flen / 3).min(300).max(2));
    if rng.chance(1, 5) {
        // the very start of the file (no archive stores chunk data there, a library user may)
        ranges[0].0 = 0;
    }
    let mut past_eof = false;
    if rng.chance(1, 10) {
        let k = rng.usize_below(ranges.len());
        ranges[k] = ((flen - rng.urange(0, 3)) as u64, rng.urange(4, 20));
        past_eof = true;
    }
    let frag = match rng.below(3) {
        0 => FragPlan::Fixed(1),
        1 => FragPlan::Random { seed: rng.next_u64(), max: 7 },
        _ => FragPlan::Random { seed: rng.next_u64(), max: 400 },
    };
    let pend = match rng.below(3) {
        0 => PendPlan::Never,
        1 => PendPlan::Every(rng.range(2, 5)),
        _ => PendPlan::Random { seed: rng.next_u64(), num: 1, den: 3 },
    };
    (file, ranges, frag, pend, past_eof)
}

fn local_engine(rep: &Report, seed: u64, tier: Tier) {
    // (a) exhaustive: one or two ranges with total body <= 10 bytes, every composition of
    //     the bytes read (positions of short reads), with and without Pending.
    let file = Arc::new(file_bytes(64));
    let mut jobs: Vec<(Vec<(u64, usize)>, Vec<usize>, bool)> = Vec::new();
    for total in 1..=tier.pick(8, 10) {
        for split in 0..=total / 2 {
            // every third shape starts at the very beginning of the file
            let base: u64 = if (total + split) % 3 == 0 { 0 } else { 5 };
            let ranges: Vec<(u64, usize)> = if split == 0 {
                vec![(base, total)]
            } else {
                vec![(base, split), (base + split as u64 + (total % 3) as u64, total - split)]
            };
            for comp in compositions(total) {
                jobs.push((ranges.clone(), comp.clone(), false));
                if comp.len() <= 4 {
                    jobs.push((ranges.clone(), comp, true));
                }
            }
        }
    }
    let out = par_map(jobs.len().div_ceil(500), crate::util::ncpu(), |b| {
        let mut v = Vec::new();
        let mut n = 0u64;
        for j in b * 500..((b + 1) * 500).min(jobs.len()) {
            let (ranges, comp, pend) = &jobs[j];
            n += 1;
            let p = if *pend { PendPlan::Every(2) } else { PendPlan::Never };
            if let Err(e) = local_case(&file, ranges, FragPlan::List(comp.clone()), p) {
                if v.len() < 3 {
                    v.push((e, json!({"engine": "local", "ranges": ranges, "comp": comp, "pend": pend, "file_len": 64})));
                }
            }
        }
        (n, v)
    });
    for (n, v) in out {
        rep.evals(n);
        rep.count("local.exhaustive_short_read_patterns", n);
        for (why, r) in v {
            rep.violation("c08/local/exhaustive", json!({"why": why}), r);
        }
    }
    // (b) random range lists, random fragmentation + Pending, incl. ranges past EOF.
    let cases = tier.pick(150_000, 10_000_000);
    let out = par_map(cases / 500, crate::util::ncpu(), |b| {
        let mut v = Vec::new();
        let mut n = 0u64;
        let mut eof = 0u64;
        for j in 0..500 {
            let i = b * 500 + j;
            let (file, ranges, frag, pend, past_eof) = local_random_params(seed, i);
            eof += past_eof as u64;
            n += 1;
            if let Err(e) = local_case(&file, &ranges, frag.clone(), pend.clone()) {
                if v.len() < 3 {
                    v.push((e, json!({"engine": "local-random", "seed": seed, "i": i})));
                }
            }
        }
        (n, eof, v)
    });
    for (n, eof, v) in out {
        rep.evals(n);
        rep.count("local.random_cases", n);
        rep.count("local.cases_with_range_past_eof", eof);
        for (why, r) in v {
            rep.violation("c08/local/random", json!({"why": why}), r);
        }
    }
}

// ---------------------------------------------------------------------------
// HTTP reader

#[derive(Clone, Debug)]
enum Act {
    Full,
    Frag(Vec<usize>),
    Cut(usize),
    /// Correct bytes but Content-Length and body are `n` bytes shorter (graceful early end).
    ShortBody(usize),
}

impl Act {
    fn json(&self) -> Value {
        match self {
            Act::Full => json!("full"),
            Act::Frag(v) => json!({"frag": v}),
            Act::Cut(k) => json!({"cut": k}),
            Act::ShortBody(n) => json!({"short_body": n}),
        }
    }
    fn from(v: &Value) -> Act {
        if v == "full" {
            Act::Full
        } else if let Some(f) = v.get("frag") {
            Act::Frag(f.as_array().unwrap().iter().map(|x| x.as_u64().unwrap() as usize).collect())
        } else if let Some(k) = v.get("cut") {
            Act::Cut(k.as_u64().unwrap() as usize)
        } else {
            Act::ShortBody(v["short_body"].as_u64().unwrap() as usize)
        }
    }
}

#[derive(Clone, Debug)]
struct HttpCase {
    file_len: usize,
    ranges: Vec<(u64, usize)>,
    plan: Vec<Act>,
    budget: u32,
}

impl HttpCase {
    fn json(&self) -> Value {
        json!({"engine": "http", "file_len": self.file_len, "ranges": self.ranges, "plan": self.plan.iter().map(|a| a.json()).collect::<Vec<_>>(), "budget": self.budget})
    }
    fn from(v: &Value) -> HttpCase {
        HttpCase {
            file_len: v["file_len"].as_u64().unwrap() as usize,
            ranges: v["ranges"].as_array().unwrap().iter().map(|r| (r[0].as_u64().unwrap(), r[1].as_u64().unwrap() as usize)).collect(),
            plan: v["plan"].as_array().unwrap().iter().map(Act::from).collect(),
            budget: v["budget"].as_u64().unwrap() as u32,
        }
    }
}

struct Expect {
    requests: Vec<(u64, u64)>,
    /// Number of chunks that must be delivered when the outcome is success.
    ok: bool,
    /// Chunks completely received before the fatal error (upper bound on Ok items).
    complete_before_error: usize,
}

/// Executable model of the reader.
fn model(c: &HttpCase) -> Expect {
    // runs of adjacent ranges
    let mut runs: Vec<(u64, u64, Vec<usize>)> = Vec::new(); // (start, len, chunk sizes)
    for &(o, s) in &c.ranges {
        match runs.last_mut() {
            Some((st, len, sizes)) if *st + *len == o => {
                *len += s as u64;
                sizes.push(s);
            }
            _ => runs.push((o, s as u64, vec![s])),
        }
    }
    let mut requests = Vec::new();
    let mut n = 0usize; // request arrival index
    let mut delivered = 0usize;
    for (start, len, sizes) in runs {
        let end = start + len - 1;
        let mut off = start;
        let mut budget = c.budget;
        let mut got: u64 = 0;
        loop {
            requests.push((off, end));
            let act = c.plan.get(n).cloned().unwrap_or(Act::Full);
            n += 1;
            let remaining = end + 1 - off;
            let (recv, failed, graceful_short) = match act {
                Act::Full | Act::Frag(_) => (remaining, false, false),
                Act::Cut(k) => {
                    let k = (k as u64).min(remaining);
                    (k, k < remaining, false)
                }
                Act::ShortBody(s) => {
                    let s = (s as u64).min(remaining);
                    (remaining - s, false, s > 0)
                }
            };
            got += recv;
            off += recv;
            let chunks_done = {
                let mut acc = 0u64;
                let mut cnt = 0;
                for s in &sizes {
                    if acc + *s as u64 <= got {
                        acc += *s as u64;
                        cnt += 1;
                    } else {
                        break;
                    }
                }
                cnt
            };
            if graceful_short {
                // Body ended early without a transport error: an error, no retry.
                return Expect { requests, ok: false, complete_before_error: delivered + chunks_done };
            }
            if failed {
                if budget == 0 {
                    return Expect { requests, ok: false, complete_before_error: delivered + chunks_done };
                }
                budget -= 1;
                continue;
            }
            delivered += sizes.len();
            break;
        }
    }
    Expect { requests, ok: true, complete_before_error: delivered }
}

fn http_case(c: &HttpCase) -> Result<(usize, usize), String> {
    let file = Arc::new(file_bytes(c.file_len));
    let plan = c.plan.clone();
    let server = Server::start(
        file.clone(),
        Arc::new(move |req, _f| {
            let act = plan.get(req.n as usize).cloned().unwrap_or(Act::Full);
            let (a, b) = req.range.unwrap_or((0, 0));
            let len = (b + 1 - a) as usize;
            match act {
                Act::Full => Action::Full,
                Act::Frag(v) => Action::Fragmented(v),
                Act::Cut(k) => Action::CutAfter(k),
                Act::ShortBody(s) => {
                    let s = s.min(len);
                    let fl = _f.len();
                    let body = _f[(a as usize).min(fl)..((a as usize + len - s).min(fl))].to_vec();
                    Action::Custom { status: 206, declared_len: None, body }
                }
            }
        }),
    );
    let url = server.url();
    let ranges = c.ranges.clone();
    let budget = c.budget;
    let rt = crate::exec::rt_current();
    let items = crate::util::catch(|| {
        rt.block_on(async {
            let mut reader = crate::lib_drv::http_reader(&url, budget)?;
            let chunks: Vec<ChunkOffset> = ranges.iter().map(|&(o, s)| ChunkOffset::new(o, s)).collect();
            let mut st = reader.read_chunks(chunks);
            let mut items: Vec<Result<Vec<u8>, String>> = Vec::new();
            let r = tokio::time::timeout(std::time::Duration::from_secs(20), async {
                while let Some(r) = st.next().await {
                    let stop = r.is_err();
                    items.push(r.map(|b| b.to_vec()).map_err(|e| format!("{:?}", e)));
                    if stop || items.len() > ranges.len() + 2 {
                        break;
                    }
                }
            })
            .await;
            if r.is_err() {
                return Err("read_chunks stream did not finish within 20 s".to_string());
            }
            Ok(items)
        })
    })
    .and_then(|x| x)?;
    let log = server.take_log();
    let ex = model(c);
    // 1. items: Ok prefix with exact bytes, in order.
    let mut oks = 0;
    for (i, it) in items.iter().enumerate() {
        match it {
            Ok(b) => {
                if i != oks {
                    return Err(format!("an Ok item follows an error at position {}", i));
                }
                let Some(&(o, s)) = c.ranges.get(i) else {
                    return Err(format!("more items than requested ranges ({})", items.len()));
                };
                if b[..] != file[o as usize..o as usize + s] {
                    return Err(format!("item {} ({} bytes) is not the bytes of range {}+{}: short, shifted or duplicated data", i, b.len(), o, s));
                }
                oks += 1;
            }
            Err(_) => {}
        }
    }
    let errs = items.iter().filter(|x| x.is_err()).count();
    if ex.ok {
        if oks != c.ranges.len() || errs != 0 {
            return Err(format!(
                "all transfers could be completed within the retry budget {} but the stream gave {} Ok items and {} errors for {} ranges: {:?}",
                c.budget,
                oks,
                errs,
                c.ranges.len(),
                items.iter().filter_map(|x| x.as_ref().err()).next()
            ));
        }
    } else {
        if errs == 0 {
            return Err(format!("a transfer failed beyond the retry budget {} / a body ended early, but no error was returned ({} Ok items)", c.budget, oks));
        }
        if oks > ex.complete_before_error {
            return Err(format!("{} Ok items although only {} chunks were completely received before the fatal failure", oks, ex.complete_before_error));
        }
    }
    // 2. Range log: every (re)request starts at the first byte not yet received and ends
    //    at the end of the run; never more than budget+1 requests per run.
    let got: Vec<(u64, u64)> = log.iter().filter_map(|r| r.req.range).collect();
    if got != ex.requests {
        let i = got.iter().zip(ex.requests.iter()).position(|(a, b)| a != b).unwrap_or(got.len().min(ex.requests.len()));
        return Err(format!(
            "request #{} has Range {:?}, the model (resume at first byte not yet received, budget {}) expects {:?}; seen {:?}, expected {:?}",
            i,
            got.get(i),
            c.budget,
            ex.requests.get(i),
            got,
            ex.requests
        ));
    }
    Ok((got.len(), errs))
}

/// What was done with an HttpReader before must not matter: a stream over a run of
/// adjacent ranges is dropped after some of its items (the consumer wanted a prefix, was
/// cancelled, hit a bad chunk), then the same reader is asked for another list. The server
/// is correct throughout.
/// Transfers that fail after the connection was accepted but before the response head is
/// complete (closed without a reply, cut inside the status line or inside a header): they
/// count against the retry budget like any other failed transfer. The failing requests
/// come first, each on a fresh connection (the server closes after every one of them), so
/// the client's transparent re-send on a reused idle connection never enters the picture.
fn http_before_head_case(seed: u64, i: usize) -> Result<bool, String> {
    let mut rng = Rng::new(seed).fork(0x0880_0000 + i as u64);
    let flen = rng.urange(300, 3000);
    let file = Arc::new(file_bytes(flen));
    let budget = rng.below(4) as u32;
    let fails = rng.below(budget as u64 + 2) as usize;
    let kind = rng.below(3);
    let server = Server::start(
        file.clone(),
        Arc::new(move |req, _f| {
            if (req.n as usize) < fails {
                match kind {
                    0 => Action::Drop,
                    1 => Action::Raw(b"HTTP/1.1 2".to_vec()),
                    _ => Action::Raw(b"HTTP/1.1 206 Partial Content\r\nContent-Le".to_vec()),
                }
            } else {
                Action::Full
            }
        }),
    );
    let url = server.url();
    // one run of adjacent ranges = one range request
    let n = rng.urange(1, 4);
    let mut ranges = Vec::new();
    let mut off = rng.urange(0, flen / 4) as u64;
    for _ in 0..n {
        let s = rng.urange(1, (flen / 8).max(2));
        if off as usize + s > flen {
            break;
        }
        ranges.push((off, s));
        off += s as u64;
    }
    if ranges.is_empty() {
        ranges.push((0, 1));
    }
    let rt = crate::exec::rt_current();
    let rg = ranges.clone();
    let items = crate::util::catch(|| {
        rt.block_on(async {
            let mut reader = crate::lib_drv::http_reader(&url, budget)?;
            let chunks: Vec<ChunkOffset> = rg.iter().map(|&(o, s)| ChunkOffset::new(o, s)).collect();
            let mut st = reader.read_chunks(chunks);
            let mut items: Vec<Result<Vec<u8>, String>> = Vec::new();
            let r = tokio::time::timeout(std::time::Duration::from_secs(20), async {
                while let Some(r) = st.next().await {
                    let stop = r.is_err();
                    items.push(r.map(|b| b.to_vec()).map_err(|e| format!("{:?}", e)));
                    if stop || items.len() > rg.len() + 2 {
                        break;
                    }
                }
            })
            .await;
            if r.is_err() {
                return Err("read_chunks stream did not finish within 20 s".to_string());
            }
            Ok(items)
        })
    })
    .and_then(|x| x)?;
    let requests = server.take_log().len();
    let what = ["closed without a reply", "cut inside the status line", "cut inside a header"][kind as usize];
    if fails as u32 <= budget {
        if items.len() != ranges.len() || items.iter().any(|x| x.is_err()) {
            return Err(format!("{} transfer(s) {} before the body, budget {}: expected all {} ranges, got {:?}", fails, what, budget, ranges.len(), items.iter().map(|x| x.as_ref().map(|v| v.len()).map_err(|e| e.chars().take(80).collect::<String>())).collect::<Vec<_>>()));
        }
        for (k, (o, sz)) in ranges.iter().enumerate() {
            if items[k].as_ref().unwrap()[..] != file[*o as usize..*o as usize + sz] {
                return Err(format!("range {} delivered wrong bytes after {} failure(s) {}", k, fails, what));
            }
        }
        if requests != fails + 1 {
            return Err(format!("{} failure(s) {} within budget {}: {} requests were made, expected {}", fails, what, budget, requests, fails + 1));
        }
    } else {
        if !items.last().map(|x| x.is_err()).unwrap_or(false) {
            return Err(format!("{} failure(s) {} with budget {}: an error is required, got {} item(s) without one", fails, what, budget, items.len()));
        }
        if requests != budget as usize + 1 {
            return Err(format!("{} failure(s) {} with budget {}: {} requests were made, the budget allows exactly {}", fails, what, budget, requests, budget + 1));
        }
    }
    Ok(fails > 0)
}

fn http_history_case(seed: u64, i: usize) -> Result<(), String> {
    let mut rng = Rng::new(seed).fork(0x0870_0000 + i as u64);
    let flen = rng.urange(300, 3000);
    let file = Arc::new(file_bytes(flen));
    let pieces = match rng.below(3) {
        0 => None,
        1 => Some(vec![rng.urange(1, 9)]),
        _ => Some(vec![rng.urange(1, 64), rng.urange(1, 300)]),
    };
    let server = Server::start(
        file.clone(),
        Arc::new(move |_req, _f| match &pieces {
            None => Action::Full,
            Some(v) => Action::Fragmented(v.clone()),
        }),
    );
    let url = server.url();
    // first list: a run of adjacent ranges
    let n1 = rng.urange(2, 6);
    let mut first = Vec::new();
    let mut off = rng.urange(0, flen / 4) as u64;
    for _ in 0..n1 {
        let s = rng.urange(1, (flen / 8).max(2));
        if off as usize + s > flen {
            break;
        }
        first.push((off, s));
        off += s as u64;
    }
    if first.len() < 2 {
        return Ok(());
    }
    let take = rng.urange(1, first.len() - 1);
    let shape = match rng.below(4) {
        0 => RangeShape::Adjacent,
        1 => RangeShape::Gapped,
        2 => RangeShape::Unordered,
        _ => RangeShape::Mixed,
    };
    let mut second = gen_ranges(&mut rng, flen, &shape, 6, (flen / 10).max(2));
    if rng.chance(1, 2) {
        // small first ranges: shorter than what an abandoned stream may have left behind
        second[0].1 = second[0].1.min(rng.urange(1, 8));
    }
    let (first2, second2) = (first.clone(), second.clone());
    let rt = crate::exec::rt_current();
    let items = crate::util::catch(|| {
        rt.block_on(async {
            let mut reader = crate::lib_drv::http_reader(&url, 0)?;
            {
                let mut st0 = reader.read_chunks(first2.iter().map(|&(o, s)| ChunkOffset::new(o, s)).collect());
                for _ in 0..take {
                    let _ = tokio::time::timeout(std::time::Duration::from_secs(20), st0.next()).await;
                }
            }
            let mut st = reader.read_chunks(second2.iter().map(|&(o, s)| ChunkOffset::new(o, s)).collect());
            let mut items: Vec<Result<Vec<u8>, String>> = Vec::new();
            let r = tokio::time::timeout(std::time::Duration::from_secs(20), async {
                while let Some(r) = st.next().await {
                    let stop = r.is_err();
                    items.push(r.map(|b| b.to_vec()).map_err(|e| format!("{:?}", e)));
                    if stop || items.len() > second2.len() + 2 {
                        break;
                    }
                }
            })
            .await;
            if r.is_err() {
                return Err("read_chunks stream did not finish within 20 s".to_string());
            }
            Ok(items)
        })
    })
    .and_then(|x| x)?;
    drop(server);
    if items.len() != second.len() {
        return Err(format!("after an abandoned stream: {} items for {} requested ranges", items.len(), second.len()));
    }
    for (k, (it, &(o, s))) in items.iter().zip(second.iter()).enumerate() {
        match it {
            Ok(b) if b[..] == file[o as usize..o as usize + s] => {}
            Ok(b) => return Err(format!("after an abandoned stream (first list {:?}, {} item(s) taken): item {} is not the bytes of range {}+{} (got {} bytes starting {:?})", first, take, k, o, s, b.len(), &b[..b.len().min(4)])),
            Err(e) => return Err(format!("after an abandoned stream: item {} is an error although the server is correct: {}", k, e)),
        }
    }
    Ok(())
}

fn http_engine(rep: &Report, seed: u64, tier: Tier) {
    let mut cases: Vec<HttpCase> = Vec::new();
    // E1: single range, cut after every offset on the first attempt (then full), budgets 0..3
    for len in (1..=tier.pick(10, 32)).chain([64usize]) {
        for k in 0..=len {
            for budget in 0..=3u32 {
                cases.push(HttpCase { file_len: 200, ranges: vec![(20, len)], plan: vec![Act::Cut(k)], budget });
            }
        }
    }
    // E2: repeated cuts (every pair of offsets for small bodies), budgets 0..3
    for len in [3usize, 6, 9] {
        for k1 in 0..len {
            for k2 in 0..(len - k1) {
                for budget in 0..=3u32 {
                    cases.push(HttpCase { file_len: 100, ranges: vec![(10, len)], plan: vec![Act::Cut(k1), Act::Cut(k2), Act::Cut(0)], budget });
                }
            }
        }
    }
    // E3: fragmentation at every split point; E3b: early graceful end of body
    for len in [2usize, 5, 12, 40] {
        for i in 1..len {
            cases.push(HttpCase { file_len: 100, ranges: vec![(7, len)], plan: vec![Act::Frag(vec![i, len - i])], budget: 0 });
            cases.push(HttpCase { file_len: 100, ranges: vec![(7, i), (7 + i as u64, len - i)], plan: vec![Act::Frag(vec![1])], budget: 1 });
            cases.push(HttpCase { file_len: 100, ranges: vec![(7, len)], plan: vec![Act::ShortBody(i)], budget: 2 });
        }
    }
    // E4: random range lists with random plans
    let mut rng = Rng::new(seed).fork(0x0808);
    for _ in 0..tier.pick(6000, 300_000) {
        let flen = rng.urange(100, 2000);
        let shape = match rng.below(5) {
            0 => RangeShape::Adjacent,
            1 => RangeShape::Gapped,
            2 => RangeShape::Unordered,
            3 => RangeShape::Repeated,
            _ => RangeShape::Mixed,
        };
        let ranges = gen_ranges(&mut rng, flen, &shape, 6, 60);
        let plan: Vec<Act> = (0..rng.urange(0, 8))
            .map(|_| match rng.below(6) {
                0 | 1 => Act::Full,
                2 => Act::Frag(vec![rng.urange(1, 9), rng.urange(1, 30)]),
                3 | 4 => Act::Cut(rng.urange(0, 70)),
                _ => Act::ShortBody(rng.urange(0, 3)),
            })
            .collect();
        cases.push(HttpCase { file_len: flen, ranges, plan, budget: rng.below(4) as u32 });
    }
    let res = par_map(cases.len(), crate::util::ncpu(), |i| (i, http_case(&cases[i])));
    for (i, r) in res {
        rep.eval();
        let c = &cases[i];
        match r {
            Ok((reqs, errs)) => {
                rep.count("http.requests_observed", reqs as u64);
                rep.count(if errs > 0 { "http.cases_ending_in_error" } else { "http.cases_completed" }, 1);
                let cuts = c.plan.iter().filter(|a| matches!(a, Act::Cut(_))).count();
                if cuts > 0 {
                    rep.count("http.cases_with_cuts", 1);
                }
                rep.nontrivial(format!("{:?}/{:?}/b{}", c.ranges, c.plan, c.budget));
                rep.sample_if(i % 997 == 0, || json!({"case": c.json(), "requests": reqs, "errors": errs}));
            }
            Err(why) => {
                let class: String = why.chars().filter(|ch| !ch.is_ascii_digit()).take(60).collect();
                rep.violation(&format!("c08/http/{}", class), json!({"why": why, "case": c.json()}), c.json());
            }
        }
    }
    // E6: read_at (the single-shot path used for the archive header) under cuts: it
    // restarts the whole range on failure; the result must be exactly the bytes or an
    // error, success iff the failures fit the budget, every request the original range.
    {
        let mut jobs: Vec<(usize, Vec<Act>, u32)> = Vec::new();
        for len in [1usize, 7, 14, 40] {
            for k in 0..len {
                for budget in 0..=2u32 {
                    jobs.push((len, vec![Act::Cut(k)], budget));
                    jobs.push((len, vec![Act::Cut(k), Act::Cut(len / 2)], budget));
                    jobs.push((len, vec![Act::ShortBody(1 + k % 3)], budget));
                }
            }
        }
        let res = par_map(jobs.len(), crate::util::ncpu(), |j| {
            let (len, plan, budget) = jobs[j].clone();
            let file = Arc::new(file_bytes(120));
            let plan2 = plan.clone();
            let server = Server::start(
                file.clone(),
                Arc::new(move |req, f| match plan2.get(req.n as usize).cloned().unwrap_or(Act::Full) {
                    Act::Full => Action::Full,
                    Act::Frag(v) => Action::Fragmented(v),
                    Act::Cut(k) => Action::CutAfter(k),
                    Act::ShortBody(s) => {
                        let (a, b) = req.range.unwrap_or((0, 0));
                        let l = (b + 1 - a) as usize;
                        Action::Custom { status: 206, declared_len: None, body: f[a as usize..a as usize + l.saturating_sub(s)].to_vec() }
                    }
                }),
            );
            let url = server.url();
            let rt = crate::exec::rt_current();
            let r = crate::util::catch(|| {
                rt.block_on(async {
                    let mut reader = crate::lib_drv::http_reader(&url, budget)?;
                    let r = tokio::time::timeout(std::time::Duration::from_secs(20), reader.read_at(30, len)).await;
                    Ok::<_, String>(match r {
                        Err(_) => Err("timeout".to_string()),
                        Ok(Ok(b)) => Ok(b.to_vec()),
                        Ok(Err(e)) => Err(format!("{:?}", e)),
                    })
                })
            })
            .and_then(|x| x);
            let reqs: Vec<(u64, u64)> = server.take_log().iter().filter_map(|x| x.req.range).collect();
            // model
            let mut attempts = 0usize;
            let mut budget_left = budget;
            let mut ok = false;
            loop {
                let act = plan.get(attempts).cloned().unwrap_or(Act::Full);
                attempts += 1;
                match act {
                    Act::Cut(k) if k < len => {
                        if budget_left == 0 {
                            break;
                        }
                        budget_left -= 1;
                    }
                    Act::ShortBody(s) if s > 0 => break, // graceful short body: UnexpectedEnd, no retry
                    _ => {
                        ok = true;
                        break;
                    }
                }
            }
            let verdict = match r {
                Err(e) => Err(e),
                Ok(Err(e)) if e == "timeout" => Err("read_at did not finish within 20 s".to_string()),
                Ok(Ok(b)) => {
                    if b[..] != file[30..30 + len] {
                        Err(format!("read_at returned {} wrong/short bytes", b.len()))
                    } else if !ok {
                        Err("read_at succeeded although the failures exceed the retry budget / the body ended early".to_string())
                    } else {
                        Ok(())
                    }
                }
                Ok(Err(_)) => {
                    if ok { Err(format!("read_at failed although the failures fit the retry budget {}", budget)) } else { Ok(()) }
                }
            };
            let verdict = verdict.and_then(|_| {
                if reqs.len() != attempts || reqs.iter().any(|r| *r != (30, 30 + len as u64 - 1)) {
                    Err(format!("read_at sent requests {:?}, expected {} x (30, {})", reqs, attempts, 30 + len - 1))
                } else {
                    Ok(())
                }
            });
            (j, verdict)
        });
        for (j, v) in res {
            rep.eval();
            match v {
                Ok(()) => {
                    rep.count("http.read_at_cases", 1);
                    rep.nontrivial(format!("read_at:{:?}", jobs[j]));
                }
                Err(why) => rep.violation(
                    &format!("c08/http-read_at/{}", why.chars().filter(|c| !c.is_ascii_digit()).take(50).collect::<String>()),
                    json!({"why": why, "len": jobs[j].0, "plan": jobs[j].1.iter().map(|a| a.json()).collect::<Vec<_>>(), "budget": jobs[j].2}),
                    json!({"engine": "read_at", "seed": seed}),
                ),
            }
        }
    }
    // E5: connection refused for every attempt: must be an error, for every budget.
    for budget in 0..=3u32 {
        let port = {
            let l = std::net::TcpListener::bind("127.0.0.1:0").unwrap();
            l.local_addr().unwrap().port()
        };
        let url = format!("http://127.0.0.1:{}/a.cba", port);
        let rt = crate::exec::rt_current();
        let r = crate::util::catch(|| {
            rt.block_on(async {
                let mut reader = crate::lib_drv::http_reader(&url, budget)?;
                let mut st = reader.read_chunks(vec![ChunkOffset::new(0, 10)]);
                let first = tokio::time::timeout(std::time::Duration::from_secs(20), st.next()).await;
                Ok::<_, String>(match first {
                    Ok(Some(Ok(b))) => format!("ok:{}", b.len()),
                    Ok(Some(Err(_))) => "err".to_string(),
                    Ok(None) => "end".to_string(),
                    Err(_) => "timeout".to_string(),
                })
            })
        })
        .and_then(|x| x);
        rep.eval();
        match r.as_deref() {
            Ok("err") => rep.count("http.refused_connection_cases", 1),
            Ok("timeout") => rep.inconclusive("refused-connection case timed out"),
            other => rep.violation(
                "c08/http/refused connection did not give an error",
                json!({"why": format!("connection refused with budget {} gave {:?}", budget, other)}),
                json!({"engine": "refused", "budget": budget}),
            ),
        }
    }
}

pub fn run(tier: Tier, seed: u64) -> i32 {
    let rep = Report::new("C08", "fault_enumeration", tier, seed);
    // Self-test of the model on a hand-computed case: range 10+6, cut after 2 then 3, budget 2
    {
        let c = HttpCase { file_len: 50, ranges: vec![(10, 6)], plan: vec![Act::Cut(2), Act::Cut(3)], budget: 2 };
        let e = model(&c);
        if e.requests != vec![(10, 15), (12, 15), (15, 15)] || !e.ok {
            rep.broken(format!("model self-test: {:?} ok={}", e.requests, e.ok));
        }
        let c = HttpCase { file_len: 50, ranges: vec![(10, 6)], plan: vec![Act::Cut(2), Act::Cut(3)], budget: 1 };
        let e = model(&c);
        if e.requests != vec![(10, 15), (12, 15)] || e.ok {
            rep.broken("model self-test (budget exhausted)".into());
        }
    }
    local_engine(&rep, seed, tier);
    http_engine(&rep, seed, tier);
    {
        let n = tier.pick(300, 6000);
        let out = par_map(n, crate::util::ncpu(), |i| (i, http_before_head_case(seed, i)));
        for (i, r) in out {
            rep.eval();
            match r {
                Ok(true) => {
                    rep.count("http.before_head_failure_cases", 1);
                    rep.nontrivial(format!("beforehead#{}", i));
                }
                Ok(false) => {}
                Err(why) => rep.violation("c08/http/failure before the response head", json!({"why": why}), json!({"engine": "http-before-head", "seed": seed, "i": i})),
            }
        }
    }
    {
        let n = tier.pick(600, 20_000);
        let out = par_map(n, crate::util::ncpu(), |i| (i, http_history_case(seed, i)));
        for (i, r) in out {
            rep.eval();
            rep.count("http.history_cases", 1);
            if let Err(why) = r {
                rep.violation("c08/http/history", json!({"why": why}), json!({"engine": "http-history", "seed": seed, "i": i}));
            }
        }
    }
    if tier == Tier::Thorough {
        crate::miri::run_slices(&rep, "reader", 16, 80, "");
    }
    if rep.counter("http.cases_with_cuts") == 0 || rep.counter("http.cases_ending_in_error") == 0 || rep.counter("local.cases_with_range_past_eof") == 0 {
        rep.broken("fault workload did not reach cuts / errors / EOF cases".into());
    }
    rep.finish(
        "local reader: IoReader over a source returning every short-read pattern for bodies <= 8/10 bytes (all compositions, with and without Pending) plus random range lists (adjacent, gapped, unordered, repeated; some past EOF) under random fragmentation and Pending; HTTP reader: HttpReader against the scripted server with bodies cut after EVERY offset 0..len, every pair of repeated cuts for small bodies, fragmentation at every split point, graceful early end of body, refused connections and random mixed plans, each for retry budgets 0..3; verdict = stream items vs requested bytes and server Range log vs an executable model (resume at first byte not yet received, <= budget+1 requests per run, error when exhausted or body ends early); non-trivial = distinct (range list, fault plan, budget) cases",
        &[
            "the server, when it answers, returns the correct bytes of the requested range (C08's own assumption)",
            "a cut is a graceful FIN after k body bytes so that the client receives exactly k bytes",
            "connection drops before any response byte are not scripted (hyper may transparently retry those itself); 'refused' is tested as a port nobody listens on",
        ],
        json!({}),
        false,
    )
}

pub fn replay(v: &Value) -> i32 {
    let r = &v["replay"];
    let res = match r["engine"].as_str().unwrap_or("") {
        "http" => http_case(&HttpCase::from(r)).map(|_| ()),
        "http-history" => http_history_case(r["seed"].as_u64().unwrap_or(1), r["i"].as_u64().unwrap_or(0) as usize),
        "http-before-head" => http_before_head_case(r["seed"].as_u64().unwrap_or(1), r["i"].as_u64().unwrap_or(0) as usize).map(|_| ()),
        "local" => {
            let ranges: Vec<(u64, usize)> = r["ranges"].as_array().unwrap().iter().map(|x| (x[0].as_u64().unwrap(), x[1].as_u64().unwrap() as usize)).collect();
            let comp: Vec<usize> = r["comp"].as_array().unwrap().iter().map(|x| x.as_u64().unwrap() as usize).collect();
            let pend = if r["pend"].as_bool().unwrap_or(false) { PendPlan::Every(2) } else { PendPlan::Never };
            local_case(&Arc::new(file_bytes(64)), &ranges, FragPlan::List(comp), pend)
        }
        _ => {
            let (file, ranges, frag, pend, _) = local_random_params(r["seed"].as_u64().unwrap_or(1), r["i"].as_u64().unwrap_or(0) as usize);
            local_case(&file, &ranges, frag, pend)
        }
    };
    match res {
        Err(w) => {
            println!("replay: VIOLATED: {}", w);
            println!("VIOLATION property=C08 replay=(replayed)");
            1
        }
        Ok(()) => {
            println!("replay: property held on this case");
            0
        }
    }
}
