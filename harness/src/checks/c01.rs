//! C01 — compress then clone reproduces the source byte-for-byte.
//!
//! Monitor: exit statuses of the real `bita compress` / `bita clone`, the output
//! file, the archive's recorded size/checksum (decoded by R2), hook completion
//! orders and the temp-file hand-off trace. Oracle: equality with the generated source.
use super::ccommon::{self, CCase, Injection};
use crate::evidence::{Report, Tier};
use crate::httpd::{self, Action, Server};
use crate::inst::{FragPlan, PendPlan};
use crate::proc::{self, Exit, Run};
use crate::refimpl::chunker as r1;
use crate::refimpl::codec;
use crate::scn::{self, CloneSpec};
use crate::util::{b2, first_diff, par_map, Rng};
use serde_json::{json, Value};
use std::sync::Arc;

fn judge_output(out: Option<Vec<u8>>, source: &[u8], who: &str) -> Result<(), String> {
    match out {
        None => Err(format!("{}: reported success but there is no output", who)),
        Some(o) => match first_diff(&o, source) {
            None => Ok(()),
            Some(i) => Err(format!(
                "{}: output differs from the source (output {} bytes, source {} bytes, first difference at {})",
                who,
                o.len(),
                source.len(),
                i
            )),
        },
    }
}

pub fn one_case(rep: &Report, idx: usize, case: &CCase, inj: &Injection, reader_sel: u64, keep: bool) -> Option<String> {
    let dir = scn::case_dir("C01", idx);
    let source = case.source();
    let res = (|| -> Result<(), String> {
        if ccommon::truncated_collision(&source, &case.spec.cfg, case.spec.hash_len) {
            rep.inconclusive("truncated-hash collision in generated source");
            return Ok(());
        }
        let obs = ccommon::run_case(&dir, "a", &source, case, inj);
        rep.eval();
        if obs.exit == Exit::Timeout || obs.exit.hit_cpu_limit() {
            rep.inconclusive("watchdog / CPU budget of the case exhausted (compress)");
            return Ok(());
        }
        if !obs.exit.ok() {
            return Err(format!("compress of a valid input failed: {} :: {}", obs.exit.describe(), obs.tail));
        }
        if let Some(fp) = &obs.fingerprint {
            rep.seen("compress_completion_orders", format!("{}:{}", idx, fp));
        }
        if let Some(h) = obs.handoff_ok {
            rep.count(if h { "handoff_ordered" } else { "handoff_out_of_order_or_short" }, 1);
        }
        let archive = obs.archive.ok_or("compress exited 0 but left no archive")?;
        let parsed = codec::parse_archive(&archive).map_err(|e| format!("archive header unreadable: {}", e))?;
        if parsed.dict.source_total_size != source.len() as u64 {
            return Err(format!("archive records source size {} (true {})", parsed.dict.source_total_size, source.len()));
        }
        if parsed.dict.source_checksum[..] != b2(&source)[..] {
            return Err("archive records a source checksum that is not Blake2b-512 of the source".into());
        }
        rep.count("archives_with_true_size_and_checksum", 1);
        let nchunks = parsed.dict.rebuild_order.len();
        let apath = dir.join("a.cba");
        let archive = Arc::new(archive);

        // Reader 1: the real CLI, local or HTTP.
        let out_path = dir.join("out.bin");
        let mut spec = CloneSpec {
            output: out_path.clone(),
            verify_output: reader_sel & 4 != 0,
            buffered: if reader_sel & 8 != 0 { Some(1 + (reader_sel >> 8) as usize % 9) } else { None },
            ..Default::default()
        };
        // A quarter of the clones replace an existing file (--force-create), smaller or
        // larger than the source: the result must still have exactly the source's length.
        if reader_sel & 0xc0 == 0xc0 {
            let junk_len = if reader_sel & 0x100 != 0 { source.len() * 2 + 1 + (reader_sel >> 20) as usize % 5000 } else { source.len() / 3 };
            std::fs::write(&out_path, Rng::new(reader_sel).bytes(junk_len)).map_err(|e| e.to_string())?;
            spec.force = true;
            rep.count("clones_over_existing_file(--force-create)", 1);
        }
        // An eighth of the clones update an older version of the file in place
        // (--seed-output): still "cloning an archive that compress produced".
        if reader_sel & 0xc0 != 0xc0 && reader_sel & 0xe00 == 0xe00 && !source.is_empty() {
            let mut erng = Rng::new(reader_sel ^ 0x01d);
            let e = *erng.pick(&[crate::gen::Edit::Insert, crate::gen::Edit::Delete, crate::gen::Edit::Prefix, crate::gen::Edit::Swap, crate::gen::Edit::Mixed, crate::gen::Edit::Duplicate]);
            std::fs::write(&out_path, crate::gen::apply_edit(&mut erng, &source, e)).map_err(|e| e.to_string())?;
            spec.seed_output = true;
            rep.count("clones_in_place_over_older_version(--seed-output)", 1);
        }
        // One clone in sixteen goes onto a block device that fits the source exactly (a
        // partition sized for the image; via the is_block_dev hook on a regular file).
        let mut onto_device = false;
        if reader_sel & 0xc0 != 0xc0 && reader_sel & 0xe00 != 0xe00 && reader_sel & 0xf000 == 0xf000 && !source.is_empty() {
            std::fs::write(&out_path, Rng::new(reader_sel ^ 0xde1).bytes(source.len())).map_err(|e| e.to_string())?;
            if reader_sel & 0x10000 != 0 {
                spec.force = true;
            } else {
                spec.seed_output = true;
            }
            onto_device = true;
            rep.count("clones_onto_exactly_fitting_block_device(hook)", 1);
        }
        let server;
        let who;
        if reader_sel & 1 == 0 {
            spec.archive = proc::p(&apath);
            who = "cli-local";
        } else {
            let frag = reader_sel & 16 != 0;
            let fs = (reader_sel >> 12) as usize;
            // One HTTP clone in four meets a flaky link: the first chunk-data response ends
            // in mid-body once and the user asked for retries — the clone must still
            // reproduce the source (the transfer resumes, §C08).
            let flaky = (reader_sel >> 7) % 4 == 0;
            if flaky {
                spec.retries = Some(2);
            }
            // ... and one in four meets a server (a cache, a proxy) that answers the first
            // chunk-data request with fewer bytes than asked for under a matching
            // Content-Length — a complete, self-consistent response. Such a clone may fail;
            // one that reports success must have produced the source.
            let short_body = (reader_sel >> 7) % 4 == 2;
            server = Server::start(
                archive.clone(),
                Arc::new(move |r, _f| {
                    if flaky && r.n == 2 {
                        let len = r.range.map(|(a, e)| (e + 1 - a) as usize).unwrap_or(0);
                        if len >= 2 {
                            return Action::CutAfter(1 + fs % (len - 1));
                        }
                    }
                    if short_body && r.n == 2 {
                        if let Some((a, e)) = r.range {
                            let (a, e) = (a as usize, (e as usize + 1).min(_f.len()));
                            if a < e && e - a >= 2 {
                                let keep = 1 + fs % (e - a - 1);
                                return Action::Custom { status: 206, declared_len: None, body: _f[a..a + keep].to_vec() };
                            }
                        }
                    }
                    if frag {
                        Action::Fragmented(vec![1 + fs % 7, 1 + fs % 1000, 1 + fs % 40_000])
                    } else {
                        Action::Full
                    }
                }),
            );
            spec.archive = server.url();
            who = "cli-http";
            let mut run = Run::new(&dir, "clone", scn::clone_args(&spec));
            run.watch = vec![out_path.clone()];
            if onto_device {
                run.blockdev = Some(out_path.clone());
            }
            if reader_sel & 32 != 0 {
                run.hook_delay = Some(format!("{},{},chunk.", inj.seed, 800u64.min(300_000 / nchunks.max(1) as u64)));
            }
            let o = proc::run(&run);
            rep.eval();
            rep.count("requests_served_to_cli", server.take_log().len() as u64);
            if short_body && server.take_log().iter().any(|l| l.action.starts_with("custom")) {
                if !o.exit.ok() && o.exit != Exit::Timeout && !o.exit.crashed() {
                    rep.count("short_body_responses.clone_failed_loudly", 1);
                    return Ok(());
                }
                rep.count("short_body_responses.clone_reported_success", 1);
            }
            return finish_cli(rep, o, &out_path, &source, who, case, nchunks, &archive, idx, reader_sel);
        }
        let mut run = Run::new(&dir, "clone", scn::clone_args(&spec));
        run.watch = vec![out_path.clone()];
        if onto_device {
            run.blockdev = Some(out_path.clone());
        }
        if reader_sel & 32 != 0 {
            run.hook_delay = Some(format!("{},{},chunk.", inj.seed, 800u64.min(300_000 / nchunks.max(1) as u64)));
            run.workers = inj.workers;
        }
        let o = proc::run(&run);
        rep.eval();
        finish_cli(rep, o, &out_path, &source, who, case, nchunks, &archive, idx, reader_sel)
    })();
    scn::cleanup(&dir, keep && res.is_err());
    res.err()
}

#[allow(clippy::too_many_arguments)]
fn finish_cli(
    rep: &Report,
    o: proc::Outcome,
    out_path: &std::path::Path,
    source: &[u8],
    who: &str,
    case: &CCase,
    nchunks: usize,
    archive: &Arc<Vec<u8>>,
    idx: usize,
    reader_sel: u64,
) -> Result<(), String> {
    if o.idle_hang() {
        return Err(format!("{}: clone of a valid archive did not end: stopped by the watchdog after {:.0?} having used {} ms of CPU (idle, not slow)", who, o.wall, o.cpu_ms));
    }
    if o.exit == Exit::Timeout || o.exit.hit_cpu_limit() {
        rep.inconclusive("watchdog / CPU budget of the case exhausted (clone)");
        return Ok(());
    }
    if !o.exit.ok() {
        return Err(format!("{}: clone of a valid archive failed: {} :: {}", who, o.exit.describe(), o.tail()));
    }
    judge_output(std::fs::read(out_path).ok(), source, who)?;
    rep.count(&format!("roundtrips.{}", who), 1);
    rep.count("output_writes_observed", proc::writes_to(&o.shim, 0).len() as u64);
    // One local clone in five is repeated onto an existing file of the source's size under
    // a file-size limit slightly below it (RLIMIT_FSIZE, SIGXFSZ ignored): the tail of the
    // output cannot be written. The run may fail; a run that reports success must still
    // have produced the source ("yields an output with exactly the source's bytes").
    if who == "cli-local" && (reader_sel >> 21) % 5 == 0 && source.len() > 3000 {
        let dir = out_path.parent().unwrap();
        let ap = dir.join("lim.cba");
        let lim_out = dir.join("lim.out");
        std::fs::write(&ap, &archive[..]).map_err(|e| e.to_string())?;
        let junk: Vec<u8> = source.iter().map(|b| !b).collect();
        std::fs::write(&lim_out, &junk).map_err(|e| e.to_string())?;
        let cut = 1 + ((reader_sel >> 9) as usize) % 2000.min(source.len() / 2);
        let cs = CloneSpec { archive: proc::p(&ap), output: lim_out.clone(), force: true, ..Default::default() };
        let mut run = Run::new(dir, "clone-lim", scn::clone_args(&cs));
        run.rlimit_fsize = Some((source.len() - cut) as u64);
        let o = proc::run(&run);
        rep.eval();
        if o.exit == Exit::Timeout {
            rep.inconclusive("watchdog (file-size limit)");
        } else if o.exit.ok() {
            judge_output(std::fs::read(&lim_out).ok(), source, "cli-local under a file-size limit that cuts off the tail of the output: success reported,")?;
            rep.count("size_limited_clones.succeeded_exact", 1);
        } else {
            rep.count("size_limited_clones.failed_loudly", 1);
        }
        let _ = std::fs::remove_file(&ap);
        let _ = std::fs::remove_file(&lim_out);
    }

    // Reader 2: the library, over a fragmenting local reader or HTTP.
    let rt = crate::exec::rt_multi(2);
    let lib_who;
    let r = if reader_sel & 2 == 0 {
        lib_who = "lib-io";
        crate::util::catch(|| {
            rt.block_on(crate::lib_drv::lib_clone_io(
                archive.clone(),
                FragPlan::Random { seed: reader_sel | 1, max: 1 + (reader_sel % 5000) as usize },
                PendPlan::Random { seed: reader_sel ^ 5, num: 1, den: 4 },
                &[],
                1 + (reader_sel % 7) as usize,
            ))
        })
        .and_then(|x| x)
    } else {
        lib_who = "lib-http";
        let server = Server::start(archive.clone(), httpd::well_behaved());
        let url = server.url();
        let r = crate::util::catch(|| rt.block_on(crate::lib_drv::lib_clone_http(&url, 0, 4))).and_then(|x| x);
        rep.count("requests_served_to_library", server.take_log().len() as u64);
        r
    };
    rep.eval();
    match r {
        Err(e) => return Err(format!("{}: clone of a valid archive failed: {}", lib_who, e)),
        Ok((file, acc)) => {
            judge_output(Some(file.data), source, lib_who)?;
            if acc.total_source_size != source.len() as u64 || acc.source_checksum != b2(source).to_vec() {
                return Err(format!("{}: reader reports wrong source size/checksum", lib_who));
            }
        }
    }
    rep.count(&format!("roundtrips.{}", lib_who), 1);
    let corner = matches!(case.len_class.as_str(), "empty" | "one" | "lt_window" | "lt_min" | "large");
    if nchunks >= 2 || corner {
        rep.nontrivial(format!("{}/{}/{}", case.key(), who, lib_who));
    }
    rep.sample_if(idx % 41 == 0, || {
        json!({"case": case.to_json(), "chunks": nchunks, "archive_len": archive.len(), "readers": [who, lib_who]})
    });
    Ok(())
}

/// The stored-size == source-size corner of the store-uncompressed rule: for a fixed
/// chunk size n, search for chunk contents whose compressed length is exactly n.
fn stored_eq_source_corner(rep: &Report, seed: u64, tier: Tier) {
    let targets: Vec<(u32, u32, usize)> = match tier {
        Tier::Quick => vec![(3, 1, 64), (3, 6, 200), (2, 3, 128)],
        Tier::Thorough => vec![
            (3, 1, 64), (3, 6, 200), (3, 11, 1000), (3, 5, 4096),
            (2, 1, 128), (2, 3, 300), (2, 19, 512),
            (1, 1, 256), (1, 6, 400),
        ],
    };
    let found = par_map(targets.len(), crate::util::ncpu(), |t| {
        let (ctype, level, n) = targets[t];
        let mut rng = Rng::new(seed).fork(0xc0de + t as u64);
        // Random prefix of length r followed by zeros: compressed size grows with r.
        let noise = rng.bytes(n);
        for r in 0..=n {
            let mut chunk = noise[..r].to_vec();
            chunk.resize(n, 0);
            if let Ok(c) = codec::compress(ctype, level, &chunk) {
                if c.len() == n {
                    return Some((ctype, level, n, chunk));
                }
            }
        }
        None
    });
    for (t, f) in found.into_iter().enumerate() {
        let Some((ctype, level, n, chunk)) = f else {
            rep.count("corner.stored_eq_source.not_found", 1);
            continue;
        };
        // Source = [compressible chunk][corner chunk][random chunk]
        let mut source = vec![b'a'; n];
        source.extend_from_slice(&chunk);
        let mut rng = Rng::new(seed ^ t as u64);
        source.extend(rng.bytes(n));
        let comp = match ctype {
            1 => crate::gen::Comp::Lzma(level),
            2 => crate::gen::Comp::Zstd(level),
            _ => crate::gen::Comp::Brotli(level),
        };
        let dir = scn::case_dir("C01", 800_000 + t);
        let spec = scn::CompressSpec::new(r1::Cfg::fixed(n), comp, 64);
        let r = (|| -> Result<bool, String> {
            let (run, out_path) = scn::compress_run(&dir, "a", &source, &spec);
            let o = proc::run(&run);
            rep.eval();
            if !o.exit.ok() {
                return Err(format!("compress failed: {}", o.tail()));
            }
            let bytes = std::fs::read(&out_path).map_err(|e| e.to_string())?;
            let parsed = codec::parse_archive(&bytes)?;
            // bita's own compressor call may differ from ours in parameters; the corner
            // is hit only if some descriptor really has stored size == source size while
            // compression is enabled.
            let hit = parsed.dict.descs.iter().any(|d| d.archive_size == d.source_size);
            let out = dir.join("o.bin");
            let cs = CloneSpec { archive: proc::p(&out_path), output: out.clone(), ..Default::default() };
            let o = proc::run(&Run::new(&dir, "clone", scn::clone_args(&cs)));
            rep.eval();
            if !o.exit.ok() {
                return Err(format!("clone failed: {}", o.tail()));
            }
            judge_output(std::fs::read(&out).ok(), &source, "cli-local")?;
            // The library writer has its own copy of the store-uncompressed rule.
            let lcase = CCase { src_seed: 0, src_class: crate::gen::SrcClass::Random, src_len: source.len(), len_class: "corner".into(), spec: spec.clone(), writer: super::ccommon::Writer::Lib };
            let lobs = ccommon::run_lib(&dir, "l", &source, &lcase.spec, &Injection::none(), 1);
            rep.eval();
            if !lobs.exit.ok() {
                return Err(format!("library compress failed: {}", lobs.tail));
            }
            let larch = lobs.archive.ok_or("library writer left no archive")?;
            let rt = crate::exec::rt_multi(1);
            let r = crate::util::catch(|| rt.block_on(crate::lib_drv::lib_clone_io(Arc::new(larch), FragPlan::All, PendPlan::Never, &[], 2))).and_then(|x| x);
            match r {
                Err(e) => return Err(format!("library round trip of the corner source failed: {}", e)),
                Ok((f, _)) => judge_output(Some(f.data), &source, "lib-io")?,
            }
            Ok(hit)
        })();
        match r {
            Ok(true) => {
                rep.count("corner.stored_eq_source.hit_and_round_tripped", 1);
                rep.nontrivial(format!("corner/{}/{}/{}", ctype, level, n));
            }
            Ok(false) => rep.count("corner.stored_eq_source.generated_but_not_hit", 1),
            Err(why) => rep.violation(
                "c01/corner/stored==source",
                json!({"why": why, "codec": ctype, "level": level, "n": n}),
                json!({"engine": "corner", "seed": seed}),
            ),
        }
        scn::cleanup(&dir, false);
    }
}

/// Chunks larger than what one write / read call of the output file moves (tokio's file
/// buffer is 2 MiB): fixed sizes of 2-4 MiB, rolling configurations with min >= 3 MiB, and
/// a multi-MiB constant run under default-like parameters (no boundary until max). Cloned
/// to a new file, over HTTP, onto an existing larger file, and in place over an older
/// version in which those chunks sit elsewhere.
fn huge_chunk_case(rep: &Report, idx: usize, seed: u64) -> Option<String> {
    let mut rng = Rng::new(seed).fork(0x01c0 + idx as u64);
    let dir = scn::case_dir("C01", 900_000 + idx);
    const MIB: usize = 1 << 20;
    let res = (|| -> Result<(), String> {
        let (cfg, source, what): (r1::Cfg, Vec<u8>, &str) = match idx % 3 {
            0 => {
                let n = 2 * MIB + rng.urange(1, 2 * MIB);
                let l = 2 * n + rng.urange(1, n);
                (r1::Cfg::fixed(n), rng.bytes(l), "fixed>2MiB")
            }
            1 => {
                // default-like rolling parameters; a constant non-zero run longer than 2 MiB
                let cfg = r1::Cfg { algo: if rng.chance(1, 2) { r1::Algo::RollSum } else { r1::Algo::BuzHash }, window: if rng.chance(1, 2) { 64 } else { 16 }, min: 16 * 1024, max: 16 * MIB, bits: 15 };
                let l0 = rng.urange(100_000, 400_000);
                let mut v = rng.bytes(l0);
                let b = 1 + rng.below(255) as u8;
                let run = 2 * MIB + rng.urange(MIB / 2, 3 * MIB);
                v.extend(std::iter::repeat(b).take(run));
                let l1 = rng.urange(100_000, 400_000);
                v.extend(rng.bytes(l1));
                (cfg, v, "constant-run>2MiB")
            }
            _ => {
                let cfg = r1::Cfg { algo: if rng.chance(1, 2) { r1::Algo::RollSum } else { r1::Algo::BuzHash }, window: 32, min: 3 * MIB, max: 6 * MIB, bits: 21 };
                let l = 9 * MIB + rng.urange(0, MIB);
                (cfg, rng.bytes(l), "min>=3MiB")
            }
        };
        let comp = *rng.pick(&[crate::gen::Comp::None, crate::gen::Comp::Brotli(1), crate::gen::Comp::Zstd(1), crate::gen::Comp::Lzma(1)]);
        let spec = scn::CompressSpec::new(cfg, comp, 64);
        let arch = match scn::make_archive(&dir, "a", &source, &spec) {
            Ok(a) => a,
            Err(e) => return Err(format!("compress of a valid source failed: {}", e.chars().take(200).collect::<String>())),
        };
        rep.eval();
        let biggest = arch.model.src_chunks.iter().map(|c| c.len).max().unwrap_or(0);
        if biggest <= 2 * MIB {
            rep.count("huge.no_chunk_over_2MiB", 1);
            return Ok(());
        }
        let apath = dir.join("a.cba");
        let out = dir.join("o.bin");
        let mode = (idx / 3) % 4;
        let server = if mode == 1 { Some(crate::httpd::Server::start(Arc::new(arch.bytes.clone()), crate::httpd::well_behaved())) } else { None };
        let mut cs = CloneSpec { archive: server.as_ref().map(|x| x.url()).unwrap_or_else(|| proc::p(&apath)), output: out.clone(), ..Default::default() };
        let mode_name = match mode {
            0 => "new file",
            1 => "http",
            2 => {
                std::fs::write(&out, rng.bytes(source.len() + 3 * MIB)).map_err(|e| e.to_string())?;
                cs.force = true;
                "--force-create over a larger file"
            }
            _ => {
                // older version: the source's chunks rotated by one (every big chunk must move)
                let chunks = r1::chunk(&cfg, &source);
                let mut prior = Vec::with_capacity(source.len());
                if chunks.len() > 1 {
                    for c in chunks[1..].iter().chain(chunks[..1].iter()) {
                        prior.extend_from_slice(&source[c.0..c.0 + c.1]);
                    }
                } else {
                    prior = source.iter().rev().copied().collect();
                }
                std::fs::write(&out, prior).map_err(|e| e.to_string())?;
                cs.seed_output = true;
                "--seed-output over rotated chunks"
            }
        };
        cs.buffered = *rng.pick(&[None, Some(1), Some(4)]);
        let o = proc::run(&Run::new(&dir, "clone", scn::clone_args(&cs)));
        drop(server);
        rep.eval();
        if o.exit == proc::Exit::Timeout {
            rep.inconclusive("watchdog");
            return Ok(());
        }
        if !o.exit.ok() {
            return Err(format!("{} / {}: clone of a valid archive failed: {} {}", what, mode_name, o.exit.describe(), o.tail()));
        }
        judge_output(std::fs::read(&out).ok(), &source, &format!("{} / {}", what, mode_name))?;
        rep.count("huge.round_trips_with_chunk_over_2MiB", 1);
        rep.seen("huge.kinds", format!("{} / {}", what, mode_name));
        rep.nontrivial(format!("huge:{}:{}:{}:{}", what, mode_name, biggest, idx));
        Ok(())
    })();
    scn::cleanup(&dir, res.is_err());
    res.err()
}

/// AddressSanitizer slice: compress and clone through the CLI built with
/// -Zsanitizer=address, every codec family at several levels (all levels in the thorough
/// tier), sources whose chunks are really stored compressed plus incompressible ones, to a
/// new file and in place over an edited older version. Oracle: no sanitizer report, exit 0,
/// output == source.
fn asan_roundtrips(rep: &Report, seed: u64, tier: Tier) {
    use super::asan;
    asan::self_test(rep);
    if !asan::available() {
        rep.inconclusive("asan: sanitizer build of the CLI not available");
        return;
    }
    let comps: Vec<crate::gen::Comp> = match tier {
        Tier::Quick => {
            use crate::gen::Comp::*;
            vec![None, Brotli(1), Brotli(6), Brotli(11), Zstd(1), Zstd(3), Zstd(12), Zstd(19), Zstd(22), Lzma(1), Lzma(6), Lzma(9)]
        }
        Tier::Thorough => crate::gen::all_comps(),
    };
    let per = tier.pick(2, 4);
    let n = comps.len() * per;
    let dir = scn::case_dir("C01", 950_000);
    let res = par_map(n, crate::util::ncpu(), |i| {
        let mut rng = Rng::new(seed).fork(0x01a5 + i as u64);
        let comp = comps[i / per];
        let cfg = match rng.below(3) {
            0 => r1::Cfg::fixed(rng.urange(3000, 20_000)),
            1 => r1::Cfg { algo: r1::Algo::RollSum, window: rng.urange(8, 64), min: 1024, max: 32_768, bits: rng.urange(10, 13) as u32 },
            _ => r1::Cfg { algo: r1::Algo::BuzHash, window: rng.urange(8, 32), min: 2048, max: 16_384, bits: rng.urange(10, 13) as u32 },
        };
        let class = *rng.pick(&[crate::gen::SrcClass::LowEntropy, crate::gen::SrcClass::ZeroRuns, crate::gen::SrcClass::Random, crate::gen::SrcClass::BlockRepetitive, crate::gen::SrcClass::MixedEntropy]);
        let len = rng.urange(20_000, 150_000);
        let mut source = crate::gen::gen_source(&mut rng, class, len);
        if rng.chance(1, 3) {
            let extra = rng.urange(1, 30_000);
            source.extend(rng.bytes(extra)); // mixed entropy: some chunks raw, some compressed
        }
        let mut spec = scn::CompressSpec::new(cfg, comp, *rng.pick(&[4usize, 16, 64]));
        if rng.chance(1, 3) {
            spec.stdin = Some(rng.next_u64());
        }
        if rng.chance(1, 3) {
            spec.buffered = Some(rng.urange(1, 9));
        }
        // zstd's ultra levels set up 200-800 MB of tables per chunk in flight (x 1.25 under
        // the sanitizer) and zero them for every chunk: at the default pipeline width one
        // such run touches 10-20 GB, which on a freshly restored or busy machine costs
        // minutes of kernel CPU time and says nothing about memory safety. Keep those runs
        // to two chunks in flight and a few dozen chunks; every other case keeps its width.
        if matches!(comp, crate::gen::Comp::Zstd(l) if l >= 20) {
            spec.buffered = Some(spec.buffered.unwrap_or(2).min(2));
            let typical = match spec.cfg.algo {
                r1::Algo::Fixed => spec.cfg.max,
                _ => (1usize << spec.cfg.bits) + spec.cfg.min,
            };
            source.truncate((typical * 24 + 17).max(20_000));
        }
        let prior = if rng.chance(1, 3) { Some(crate::gen::apply_edit(&mut rng, &source, crate::gen::Edit::Swap)) } else { None };
        let r = asan::roundtrip_case(&dir, &format!("r{}", i), &source, &spec, prior.as_deref());
        (spec.describe(), comp, r)
    });
    for (what, comp, r) in res {
        rep.eval();
        rep.eval();
        match r {
            Ok(()) => {
                rep.count("asan.roundtrips_clean", 1);
                rep.seen("asan.codecs", comp.describe());
            }
            Err(why) if why.starts_with("inconclusive") => rep.inconclusive("asan watchdog"),
            Err(why) => rep.violation(
                &format!("c01/asan/{}/{}", comp.family(), why.split(|c| c == ':' || c == '(').next().unwrap_or("").trim()),
                json!({"why": why, "case": what}),
                json!({"engine": "asan", "seed": seed, "tier": tier.name()}),
            ),
        }
    }
    scn::cleanup(&dir, rep.violations() > 0);
}

pub fn run(tier: Tier, seed: u64) -> i32 {
    let rep = Report::new("C01", "exploration", tier, seed);
    let n = tier.pick(600, 7000);
    let nlarge = tier.pick(6, 50);
    let total = n + nlarge;
    let viols = par_map(total, crate::util::ncpu(), |i| {
        let mut rng = Rng::new(seed).fork(0x0100 + i as u64);
        let case = ccommon::gen_case(&mut rng, i >= n, tier == Tier::Quick);
        let mut inj = if rng.chance(1, 8) { Injection::none() } else { Injection::gen(&mut rng) };
        let nchunks = if case.src_len == 0 { 0 } else { r1::chunk(&case.spec.cfg, &case.source()).len() };
        super::c11::cap_injection(&mut inj, nchunks);
        let mut sel = rng.next_u64();
        if rng.chance(9, 10) {
            sel &= !32; // 10 % of clones run with worker delays
        }
        let v = one_case(&rep, i, &case, &inj, sel, true);
        (i, case, inj, sel, v)
    });
    for (i, case, inj, sel, v) in viols {
        if let Some(why) = v {
            let class = why.split("::").next().unwrap_or("").split('(').next().unwrap_or("");
            let class: String = class.chars().filter(|c| !c.is_ascii_digit()).take(60).collect();
            rep.violation(
                &format!("c01/{}/{}", case.writer.name(), class.trim()),
                json!({"why": why, "case": case.to_json(), "work_dir": format!("/verif/.work/C01/c{}", i)}),
                json!({"engine": "roundtrip", "case": case.to_json(), "inj": inj.to_json(), "sel": sel, "idx": i}),
            );
        }
    }
    // All compression levels once each (both tiers: the random cases of the quick tier
    // stay at cheap levels, and what a decoder accepts can depend on the level alone).
    {
        let comps = crate::gen::all_comps();
        let v = par_map(comps.len(), crate::util::ncpu(), |i| {
            let mut rng = Rng::new(seed).fork(0x01aa + i as u64);
            let mut case = ccommon::gen_case(&mut rng, false, true);
            case.spec.comp = comps[i];
            // A handful of chunks of several KiB of compressible data each: every chunk is
            // really stored compressed (tiny chunks are stored raw and never reach the
            // decoder), and the most expensive levels stay cheap.
            case.spec.cfg = if rng.chance(1, 2) { r1::Cfg::fixed(rng.urange(6000, 12_000)) } else { r1::Cfg { algo: if rng.chance(1, 2) { r1::Algo::RollSum } else { r1::Algo::BuzHash }, window: 16, min: 4096, max: 16_384, bits: 12 } };
            case.src_len = rng.urange(30_000, 60_000);
            case.src_class = crate::gen::SrcClass::LowEntropy;
            let v = one_case(&rep, 700_000 + i, &case, &Injection::none(), rng.next_u64() & !32, true);
            (case, v)
        });
        // ... and per codec one source of incompressible chunks far larger than any internal
        // buffer of an encoder / decoder (an encoder that is handed a chunk with write()
        // instead of write_all() takes only part of it).
        let fams = [crate::gen::Comp::Brotli(1), crate::gen::Comp::Zstd(1), crate::gen::Comp::Lzma(1), crate::gen::Comp::Brotli(5), crate::gen::Comp::Zstd(7), crate::gen::Comp::Lzma(3)];
        let v2 = par_map(fams.len(), crate::util::ncpu(), |i| {
            let mut rng = Rng::new(seed).fork(0x01bb + i as u64);
            let mut case = ccommon::gen_case(&mut rng, false, true);
            case.spec.comp = fams[i];
            case.spec.cfg = r1::Cfg::fixed(rng.urange(90_000, 300_000));
            case.src_len = rng.urange(400_000, 700_000);
            case.src_class = if i < 3 { crate::gen::SrcClass::Random } else { crate::gen::SrcClass::ZeroRuns };
            let v = one_case(&rep, 710_000 + i, &case, &Injection::none(), rng.next_u64() & !32, true);
            (case, v)
        });
        let v: Vec<_> = v.into_iter().chain(v2).collect();
        for (case, v) in v {
            rep.seen("compression_levels", case.spec.comp.describe());
            if let Some(why) = v {
                rep.violation(
                    &format!("c01/levels/{}", case.spec.comp.family()),
                    json!({"why": why, "case": case.to_json()}),
                    json!({"engine": "roundtrip", "case": case.to_json(), "inj": Injection::none().to_json(), "sel": 0, "idx": 0}),
                );
            }
        }
    }
    stored_eq_source_corner(&rep, seed, tier);
    asan_roundtrips(&rep, seed, tier);
    let nh = tier.pick(12, 96);
    // few at a time: each case holds tens of MiB
    let res = par_map(nh, 6, |i| (i, huge_chunk_case(&rep, i, seed)));
    for (i, r) in res {
        if let Some(why) = r {
            let class: String = why.split(':').next().unwrap_or("").chars().take(60).collect();
            rep.violation(
                &format!("c01/huge-chunk/{}", class.trim()),
                json!({"why": why, "work_dir": format!("/verif/.work/C01/c{}", 900_000 + i)}),
                json!({"engine": "huge", "idx": i, "seed": seed}),
            );
        }
    }
    if rep.counter("huge.round_trips_with_chunk_over_2MiB") == 0 {
        rep.broken("no round trip with a chunk over 2 MiB completed".into());
    }
    if rep.counter("roundtrips.cli-local") == 0 || rep.counter("roundtrips.cli-http") == 0 {
        rep.broken("no CLI round trip completed".into());
    }
    rep.finish(
        "chunks over 2 MiB (fixed 2-4 MiB, min >= 3 MiB, constant runs under default-like parameters) cloned to a new file, over HTTP, over a larger existing file and in place over rotated chunks; each case = (source class, length class incl. empty/1 byte/<window/<min/min+-1/max+-1/k*max/1-5 MiB, chunker config, compression, hash length, buffered-chunks) through writer in {CLI file, CLI stdin pipe, library} under seeded delay injection, then cloned by the real CLI (local file or HTTP from the scripted server) and by the library (fragmenting local reader or HTTP); verdict = exit statuses, output bytes == source, archive size/checksum fields (R2); non-trivial = distinct (source class, length class, writer, algorithm, codec, hash length, readers) with >= 2 chunks or a listed corner source",
        &[
            "sources with a truncated-hash collision between distinct chunks are dropped (counted inconclusive)",
            "schedules are sampled by delay injection, thread-count and buffering variation, not enumerated",
        ],
        json!({}),
        false,
    )
}

pub fn replay(v: &Value) -> i32 {
    let r = &v["replay"];
    if r["engine"] == "huge" {
        let rep = Report::new("C01", "exploration", Tier::Quick, r["seed"].as_u64().unwrap_or(1));
        return match huge_chunk_case(&rep, r["idx"].as_u64().unwrap_or(0) as usize, r["seed"].as_u64().unwrap_or(1)) {
            Some(why) => {
                println!("replay: VIOLATED: {}", why);
                println!("VIOLATION property=C01 replay=(replayed)");
                1
            }
            None => {
                println!("replay: property held on this case");
                0
            }
        };
    }
    if r["engine"] == "asan" {
        let tier = if r["tier"] == "thorough" { Tier::Thorough } else { Tier::Quick };
        let rep = Report::new("C01", "exploration", tier, r["seed"].as_u64().unwrap_or(1));
        asan_roundtrips(&rep, r["seed"].as_u64().unwrap_or(1), tier);
        return if rep.violations() > 0 { 1 } else { 0 };
    }
    if r["engine"] == "corner" {
        let rep = Report::new("C01", "exploration", Tier::Thorough, r["seed"].as_u64().unwrap_or(1));
        stored_eq_source_corner(&rep, r["seed"].as_u64().unwrap_or(1), Tier::Thorough);
        return if rep.violations() > 0 { 1 } else { 0 };
    }
    let case = CCase::from_json(&r["case"]);
    let inj = Injection::from_json(&r["inj"]);
    let sel = r["sel"].as_u64().unwrap_or(0);
    let mut rep = Report::new("C01", "exploration", Tier::Quick, 0);
    rep.replay_mode = true;
    let mut bad = 0;
    for k in 0..10 {
        if let Some(why) = one_case(&rep, 900_000 + k, &case, &inj, sel, false) {
            println!("replay run {}: VIOLATED: {}", k, why);
            bad += 1;
        }
    }
    if bad > 0 {
        println!("VIOLATION property=C01 replay=(replayed {} of 10 runs)", bad);
        1
    } else {
        println!("replay: property held on 10 runs of this case");
        0
    }
}
