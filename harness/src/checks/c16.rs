//! C16 — clone writes no file but the output; compress leaves only the archive.
//!
//! Monitor: `strace -f` of the real CLI (every open/creat/unlink/rename/mkdir/link/
//! truncate family syscall of every thread, with resolved paths) plus directory
//! snapshots before / after. Oracle: successful opens with write/create/truncate
//! intent only on the output (clone) or archive + temp file (compress); no unlink /
//! rename / mkdir / link / symlink / truncate other than compress removing its temp
//! file; seeds and archive only ever opened O_RDONLY; directory listing afterwards ==
//! before + {output | archive}.
use super::clone_common::{self as cc, Focus, OutKind, Scenario};
use crate::evidence::{Report, Tier};
use crate::gen::{self, Comp};
use crate::httpd::{self, Server};
use crate::proc::{self, p, parse_strace, Exit, Run, StraceCall};
use crate::refimpl::chunker::Cfg;
use crate::refimpl::codec;
use crate::scn::{self, CompressSpec};
use crate::util::{par_map, Rng};
use serde_json::{json, Value};
use std::collections::BTreeSet;
use std::path::{Path, PathBuf};
use std::sync::Arc;

const TRACE: &str = "trace=open,openat,openat2,creat,unlink,unlinkat,rename,renameat,renameat2,truncate,mkdir,mkdirat,rmdir,link,linkat,symlink,symlinkat,mknod,mknodat,chmod,fchmodat";

fn strace_wrapper(out: &Path) -> Vec<String> {
    vec!["strace".into(), "-f".into(), "--seccomp-bpf".into(), "-qq".into(), "-y".into(), "-e".into(), TRACE.into(), "-o".into(), p(out)]
}

fn listing(dir: &Path) -> BTreeSet<String> {
    std::fs::read_dir(dir)
        .map(|rd| rd.filter_map(|e| e.ok()).map(|e| e.file_name().to_string_lossy().to_string()).collect())
        .unwrap_or_default()
}

#[derive(Debug, Default)]
struct FileActivity {
    /// (path, flags text) of successful opens with write intent
    write_opens: Vec<(String, String)>,
    /// (path, flags text) of all successful opens
    all_opens: Vec<(String, String)>,
    /// successful namespace-changing calls: (syscall, args)
    namespace: Vec<(String, String)>,
    calls: usize,
}

fn ignored_path(path: &str) -> bool {
    path.starts_with("/dev/") || path.starts_with("/proc/") || path.starts_with("/sys/") || path.starts_with("socket:") || path.starts_with("pipe:") || path.starts_with("anon_inode:")
}

fn analyse(calls: &[StraceCall]) -> FileActivity {
    let mut a = FileActivity::default();
    for c in calls {
        a.calls += 1;
        let ok = c.ret_val().map(|v| v >= 0).unwrap_or(false);
        if !ok {
            continue;
        }
        match c.name.as_str() {
            "open" | "openat" | "openat2" | "creat" => {
                // returned fd is decorated with the resolved path: "3</abs/path>"
                let path = c.ret.split_once('<').map(|(_, r)| r.trim_end().trim_end_matches('>').to_string()).unwrap_or_default();
                let flags = if c.name == "creat" {
                    "O_CREAT|O_WRONLY|O_TRUNC".to_string()
                } else {
                    c.args.split(", ").find(|x| x.starts_with("O_")).unwrap_or("").to_string()
                };
                let writeish = ["O_WRONLY", "O_RDWR", "O_CREAT", "O_TRUNC", "O_APPEND", "O_TMPFILE"].iter().any(|f| flags.contains(f));
                let path = path.trim_end_matches(" (deleted)").to_string();
                if ignored_path(&path) {
                    continue;
                }
                a.all_opens.push((path.clone(), flags.clone()));
                if writeish {
                    a.write_opens.push((path, flags));
                }
            }
            "chmod" | "fchmodat" => {}
            _ => a.namespace.push((c.name.clone(), c.args.clone())),
        }
    }
    a
}

fn clone_case(rep: &Report, idx: usize, sc: &Scenario, verify_header: bool) -> Option<String> {
    let dir = scn::case_dir("C16", idx);
    let res = (|| -> Result<(), String> {
        let b = match cc::build(&dir, sc) {
            Ok(b) => b,
            Err(e) => {
                rep.inconclusive(&e.chars().take(40).collect::<String>());
                return Ok(());
            }
        };
        // Separate directories: inputs (must stay untouched) and output.
        let odir = dir.join("outdir");
        std::fs::create_dir_all(&odir).unwrap();
        let mut b = b;
        b.out_path = odir.join("out.bin");
        cc::prepare_output(&b, sc);
        // How a seed is named must not change how it is opened: one clone in four gets its
        // first seed through a named pipe (fed from a thread), another through a symlink.
        let mut fifo: Option<scn::FifoFeeder> = None;
        let mut alt_seed0: Option<PathBuf> = None;
        if let Some(first) = b.seed_paths.first() {
            match idx % 4 {
                1 => {
                    let data = std::fs::read(first).unwrap_or_default();
                    fifo = scn::FifoFeeder::start(dir.join("seed0.fifo"), data);
                    alt_seed0 = fifo.as_ref().map(|f| f.path.clone());
                }
                3 => {
                    let l = dir.join("seed0.link");
                    let _ = std::fs::remove_file(&l);
                    if std::os::unix::fs::symlink(first, &l).is_ok() {
                        alt_seed0 = Some(l);
                    }
                }
                _ => {}
            }
        }
        // One clone in five names its OUTPUT through a symlinked directory followed by "..":
        // the operating system resolves the link first, so the given output is
        // outdir/out.bin; rewriting the path as text would name another file.
        let mut dotdot_out: Option<PathBuf> = None;
        if idx % 5 == 2 {
            let sub = odir.join("sub");
            let link = dir.join("lnk");
            let _ = std::fs::remove_file(&link);
            if std::fs::create_dir_all(&sub).is_ok() && std::os::unix::fs::symlink(&sub, &link).is_ok() {
                dotdot_out = Some(link.join("..").join("out.bin"));
            }
        }
        let before_in = listing(&dir);
        let before_out = listing(&odir);
        let before_inputs: Vec<(PathBuf, Vec<u8>)> = b.seed_paths.iter().chain([&b.arch.path]).map(|pth| (pth.clone(), std::fs::read(pth).unwrap_or_default())).collect();
        let server = if sc.http { Some(Server::start(Arc::new(b.arch.bytes.clone()), httpd::well_behaved())) } else { None };
        let mut spec = cc::clone_spec(&b, sc, server.as_ref().map(|s| s.url()).unwrap_or_else(|| p(&b.arch.path)));
        // `-f` onto an existing output that is also named as a seed (spelled "./..." or as it
        // is): still nothing but the output may be touched, renamed or replaced.
        if sc.out_kind == OutKind::Force && idx % 3 == 0 && dotdot_out.is_none() {
            let as_seed = if idx % 2 == 0 { b.out_path.clone() } else { b.out_path.parent().unwrap().join(".").join(b.out_path.file_name().unwrap()) };
            spec.seeds.push(as_seed);
            rep.count("clone.force_with_the_output_named_as_seed", 1);
        }
        if let Some(o) = &dotdot_out {
            spec.output = o.clone();
            rep.count("clone.output_named_through_symlink_and_dotdot", 1);
        }
        if verify_header {
            spec.verify_header = Some(crate::util::hex(&b.arch.model.parsed.header_checksum));
        }
        if let (Some(a), false) = (&alt_seed0, spec.seeds.is_empty()) {
            spec.seeds[0] = a.clone();
            rep.count(if fifo.is_some() { "clone.first_seed_through_a_named_pipe" } else { "clone.first_seed_through_a_symlink" }, 1);
        }
        let trace = dir.join("strace.out");
        let mut run = Run::new(&dir, "clone", scn::clone_args(&spec));
        run.use_shim = false;
        run.wrapper = strace_wrapper(&trace);
        if let Some(s) = &b.stdin_seed {
            run.stdin = Some((s.clone(), sc.src_seed | 1));
        }
        if sc.out_kind == OutKind::BlockDev {
            run.blockdev = Some(b.out_path.clone());
        }
        let o = proc::run(&run);
        drop(server);
        let had_fifo = fifo.is_some();
        if let Some(f) = fifo.take() {
            f.finish();
        }
        rep.eval();
        if o.exit == Exit::Timeout {
            rep.inconclusive("watchdog");
            return Ok(());
        }
        let text = std::fs::read_to_string(&trace).map_err(|_| "no strace output".to_string());
        let Ok(text) = text else {
            rep.inconclusive("strace produced no output");
            return Ok(());
        };
        let _ = std::fs::remove_file(&trace);
        let calls = parse_strace(&text);
        let act = analyse(&calls);
        if act.all_opens.is_empty() {
            rep.inconclusive("strace saw no file opens");
            return Ok(());
        }
        rep.count("clone.syscalls_observed", act.calls as u64);
        rep.count("clone.file_opens_observed", act.all_opens.len() as u64);
        let out_s = p(&b.out_path);
        for (path, flags) in &act.write_opens {
            if *path != out_s {
                return Err(format!("clone opened {} with {} (only the output may be opened for writing / created)", path, flags));
            }
        }
        if let Some((name, args)) = act.namespace.first() {
            return Err(format!("clone performed {}({}) — nothing may be removed, renamed, created or truncated by path", name, args.chars().take(120).collect::<String>()));
        }
        // Seeds and archive read-only.
        for (pth, _) in &before_inputs {
            for (path, flags) in &act.all_opens {
                if *path == p(pth) && !flags.contains("O_RDONLY") {
                    return Err(format!("input {} was opened with {}", path, flags));
                }
            }
        }
        for (pth, content) in &before_inputs {
            if std::fs::read(pth).unwrap_or_default() != *content {
                return Err(format!("input {} changed", pth.display()));
            }
        }
        // Directory snapshots.
        let mut after_in = listing(&dir);
        after_in.remove("strace.out");
        after_in.remove("clone.shim");
        after_in.remove("clone.hooks");
        let mut want_in = before_in.clone();
        want_in.remove("strace.out");
        if had_fifo {
            want_in.remove("seed0.fifo"); // removed by the harness' feeder, not by bita
        }
        if after_in != want_in {
            return Err(format!("files appeared/disappeared next to the inputs: {:?}", after_in.symmetric_difference(&want_in).collect::<Vec<_>>()));
        }
        let after_out = listing(&odir);
        let mut want_out = before_out.clone();
        if o.exit.ok() {
            want_out.insert("out.bin".into());
        }
        if after_out != want_out && !(after_out.len() == want_out.len() + 1 && after_out.contains("out.bin")) {
            return Err(format!("output directory holds {:?}, expected {:?}", after_out, want_out));
        }
        rep.count(&format!("clone.modes.{}{}", sc.out_kind.name(), if sc.http { ".http" } else { ".local" }), 1);
        rep.nontrivial(format!("clone:{}:vh={}#{}", sc.key(), verify_header, idx));
        rep.sample_if(idx % 17 == 0, || json!({"scenario": sc.to_json(), "opens": act.all_opens.iter().filter(|x| x.0.starts_with("/verif")).take(8).collect::<Vec<_>>(), "write_opens": act.write_opens}));
        Ok(())
    })();
    scn::cleanup(&dir, res.is_err());
    res.err()
}

fn compress_case(rep: &Report, idx: usize, seed: u64) -> Option<String> {
    let mut rng = Rng::new(seed).fork(0x16c0 + idx as u64);
    let dir = scn::case_dir("C16", 50_000 + idx);
    let res = (|| -> Result<(), String> {
        let src_len = match rng.below(4) {
            0 => 0,
            _ => rng.urange(1, 40_000),
        };
        let class = *rng.pick(&gen::SRC_CLASSES);
        let source = gen::gen_source(&mut rng, class, src_len);
        let cfg = gen::gen_cli_cfg(&mut rng, false);
        let comp = gen::gen_comp(&mut rng, true);
        let hl = *rng.pick(&[4usize, 16, 64]);
        let mut spec = CompressSpec::new(cfg, comp, hl);
        spec.stdin = if rng.chance(1, 2) { Some(rng.next_u64() | 1) } else { None };
        spec.force = rng.chance(1, 3) || idx % 6 == 5;
        if rng.chance(1, 3) {
            spec.metadata_files.push(("m".into(), rng.bytes(100)));
        }
        let (mut run, _) = scn::compress_run(&dir, "a", &source, &spec);
        let odir = dir.join("outdir");
        std::fs::create_dir_all(&odir).unwrap();
        let oname = *rng.pick(&["a.cba", "noext", "two.dots.cba", "x.tmp"]);
        let out = odir.join(oname);
        let n = run.args.len();
        run.args[n - 1] = p(&out);
        let mut rerun = false;
        if spec.force && (rng.chance(1, 2) || idx % 6 == 5) {
            if idx % 6 != 5 && rng.chance(1, 2) {
                std::fs::write(&out, b"previous").unwrap();
            } else {
                // The output already holds exactly the archive this run will write: the same
                // command has been run before (an idempotent re-run with --force-create).
                let mut first = scn::compress_run(&dir, "a", &source, &spec).0;
                let n1 = first.args.len();
                first.args[n1 - 1] = p(&out);
                first.use_shim = false;
                let o1 = proc::run(&first);
                rerun = o1.exit.ok();
            }
        }
        let temp = scn::temp_path_of(&out);
        // The state an earlier failed or interrupted compress leaves behind: its temp file
        // (any length), and unrelated neighbours that must not be touched.
        let stale_temp = idx % 3 == 1 && temp != out;
        if stale_temp {
            let l = *rng.pick(&[0usize, 7, 100_000]);
            std::fs::write(&temp, rng.bytes(l)).unwrap();
        }
        if idx % 4 == 2 {
            std::fs::write(odir.join("neighbour.bin"), b"keep me").unwrap();
        }
        let before_out = listing(&odir);
        let before_in = listing(&dir);
        let trace = dir.join("strace.out");
        run.use_shim = false;
        run.wrapper = strace_wrapper(&trace);
        let o = proc::run(&run);
        rep.eval();
        if o.exit == Exit::Timeout {
            rep.inconclusive("watchdog");
            return Ok(());
        }
        if !o.exit.ok() {
            rep.inconclusive("compress failed on a valid input (judged by C01)");
            return Ok(());
        }
        let Ok(text) = std::fs::read_to_string(&trace) else {
            rep.inconclusive("strace produced no output");
            return Ok(());
        };
        let _ = std::fs::remove_file(&trace);
        let act = analyse(&parse_strace(&text));
        if act.all_opens.is_empty() {
            rep.inconclusive("strace saw no file opens");
            return Ok(());
        }
        rep.count("compress.syscalls_observed", act.calls as u64);
        let (out_s, temp_s) = (p(&out), p(&temp));
        for (path, flags) in &act.write_opens {
            if *path != out_s && *path != temp_s {
                return Err(format!("compress opened {} with {} (only the archive and its temp file may be written)", path, flags));
            }
        }
        let mut unlinked_temp = false;
        for (name, args) in &act.namespace {
            let is_temp_unlink = (name == "unlink" || name == "unlinkat") && args.contains(&format!("\"{}\"", temp_s));
            if is_temp_unlink {
                unlinked_temp = true;
            } else {
                return Err(format!("compress performed {}({})", name, args.chars().take(120).collect::<String>()));
            }
        }
        let after_out = listing(&odir);
        let oname_s = out.file_name().unwrap().to_string_lossy().to_string();
        let tname_s = temp.file_name().unwrap().to_string_lossy().to_string();
        // Exactly the archive is new; the temp file is gone (also one that was there before);
        // nothing else appeared or vanished.
        let mut want = before_out.clone();
        want.insert(oname_s.clone());
        if tname_s != oname_s {
            want.remove(&tname_s);
        }
        if after_out != want {
            return Err(format!("after a successful compress the output directory holds {:?}, expected exactly {:?} (temp file {}{})", after_out, want, if unlinked_temp { "was unlinked" } else { "was NOT unlinked" }, if stale_temp { "; a stale temp file existed before" } else { "" }));
        }
        if after_out.contains("neighbour.bin") && std::fs::read(odir.join("neighbour.bin")).ok().as_deref() != Some(b"keep me".as_slice()) {
            return Err("compress changed an unrelated file next to its output".into());
        }
        if stale_temp {
            rep.count("compress.runs_with_stale_temp", 1);
        }
        let mut after_in = listing(&dir);
        after_in.remove("strace.out");
        if after_in != before_in {
            return Err(format!("files appeared/disappeared next to the input: {:?}", after_in.symmetric_difference(&before_in).collect::<Vec<_>>()));
        }
        if spec.stdin.is_none() {
            let sp = dir.join("a.src");
            if act.all_opens.iter().any(|(path, flags)| *path == p(&sp) && !flags.contains("O_RDONLY")) {
                return Err("compress opened its input with write access".into());
            }
        }
        rep.count("compress.temp_unlinks_observed", unlinked_temp as u64);
        rep.count("compress.runs_judged", 1);
        if rerun {
            rep.count("compress.reruns_over_own_output", 1);
        }
        rep.nontrivial(format!("compress:{}:{}:{}", spec.describe(), out.file_name().unwrap().to_string_lossy(), idx));
        Ok(())
    })();
    scn::cleanup(&dir, res.is_err());
    res.err()
}

/// Directory listing as raw bytes (names that are not valid UTF-8 must not be folded).
fn listing_raw(dir: &Path) -> BTreeSet<Vec<u8>> {
    use std::os::unix::ffi::OsStrExt;
    std::fs::read_dir(dir).map(|rd| rd.filter_map(|e| e.ok()).map(|e| e.file_name().as_bytes().to_vec()).collect()).unwrap_or_default()
}

/// Output (clone) or archive (compress) paths whose bytes are not valid UTF-8 — Latin-1
/// names, stray continuation bytes — in the file name or in a directory component. The
/// file that is created and written must be exactly the one that was named; observed by
/// raw directory listings and the content of the named path.
fn odd_name_case(rep: &Report, idx: usize, seed: u64) -> Option<String> {
    use std::os::unix::ffi::{OsStrExt, OsStringExt};
    let mut rng = Rng::new(seed).fork(0x16e0 + idx as u64);
    let dir = scn::case_dir("C16", 160_000 + idx);
    let res = (|| -> Result<(), String> {
        let names: [&[u8]; 6] = [b"out-\xe5\xe4\xf6.img", b"\xff\xfe.bin", b"caf\xe9", b"a\x80b.cba", "snowman-\u{2603}.bin".as_bytes(), b"plain.bin"];
        let name: Vec<u8> = names[idx % names.len()].to_vec();
        let odd_dir = idx % 2 == 1;
        let sub: Vec<u8> = if odd_dir { b"d-\xe9\xa0".to_vec() } else { b"d".to_vec() };
        let odir = dir.join(std::ffi::OsString::from_vec(sub));
        std::fs::create_dir_all(&odir).map_err(|e| e.to_string())?;
        let target = odir.join(std::ffi::OsString::from_vec(name.clone()));
        let src_len = rng.urange(2000, 20_000);
        let source = gen::gen_source(&mut rng, gen::SrcClass::BlockRepetitive, src_len);
        let compress = idx % 3 == 2;
        let before = listing_raw(&odir);
        let (o, what) = if compress {
            let spec = CompressSpec::new(Cfg::fixed(rng.urange(200, 900)), Comp::Brotli(2), 64);
            let (mut run, _) = scn::compress_run(&dir, "a", &source, &spec);
            run.use_shim = false;
            run.raw_last_arg = Some(target.clone().into_os_string());
            (proc::run(&run), "compress")
        } else {
            let arch = scn::make_archive(&dir, "a", &source, &CompressSpec::new(Cfg::fixed(rng.urange(200, 900)), Comp::None, 64)).map_err(|_| "build".to_string());
            let Ok(arch) = arch else {
                rep.inconclusive("archive build");
                return Ok(());
            };
            let mode = (idx / 3) % 3;
            let mut cs = scn::CloneSpec { archive: p(&arch.path), output: dir.join("placeholder"), verify_output: rng.chance(1, 2), ..Default::default() };
            if mode == 1 {
                std::fs::write(&target, rng.bytes(source.len() / 2)).map_err(|e| e.to_string())?;
                cs.force = true;
            }
            if mode == 2 {
                std::fs::write(&target, gen::apply_edit(&mut rng, &source, gen::Edit::Swap)).map_err(|e| e.to_string())?;
                cs.seed_output = true;
            }
            let mut run = Run::new(&dir, "clone", scn::clone_args(&cs));
            run.use_shim = false;
            run.raw_last_arg = Some(target.clone().into_os_string());
            (proc::run(&run), ["clone", "clone --force-create", "clone --seed-output"][mode])
        };
        rep.eval();
        if o.exit == Exit::Timeout {
            rep.inconclusive("watchdog");
            return Ok(());
        }
        if !o.exit.ok() {
            return Err(format!("{} with a path that is not valid UTF-8 failed: {} :: {}", what, o.exit.describe(), o.tail()));
        }
        let after = listing_raw(&odir);
        let mut want = before.clone();
        want.insert(name.clone());
        if after != want {
            let show = |s: &BTreeSet<Vec<u8>>| s.iter().map(|n| n.escape_ascii().to_string()).collect::<Vec<_>>();
            return Err(format!("{}: the directory holds {:?}, expected exactly {:?} (the named file and nothing else)", what, show(&after), show(&want)));
        }
        let got = std::fs::read(&target).map_err(|e| format!("the named output cannot be read: {}", e))?;
        if !compress && got != source {
            return Err(format!("{}: the named output does not hold the source (something else was written?)", what));
        }
        if compress && codec::parse_archive(&got).is_err() {
            return Err("compress: the named archive path does not hold an archive".into());
        }
        let _ = target.as_os_str().as_bytes();
        rep.count("odd_names.runs_judged", 1);
        rep.nontrivial(format!("oddname:{}:{}:{}", what, name.escape_ascii(), odd_dir));
        Ok(())
    })();
    scn::cleanup(&dir, res.is_err());
    res.err()
}

/// Compress under an injected fault at a file operation on its temp file or archive
/// (k-th write, the re-open of the temp file, the final unlink). The statement is about
/// SUCCESSFUL runs: whatever the fault, exit status 0 must mean "exactly the archive is
/// new and the temp file is gone". A run that reports the failure is outside it.
fn compress_fault_case(rep: &Report, idx: usize, seed: u64) -> Option<String> {
    let mut rng = Rng::new(seed).fork(0x16f0 + idx as u64);
    let dir = scn::case_dir("C16", 120_000 + idx);
    let res = (|| -> Result<(), String> {
        let src_len = rng.urange(1, 30_000);
        let class = *rng.pick(&gen::SRC_CLASSES);
        let source = gen::gen_source(&mut rng, class, src_len);
        let cfg = gen::gen_cli_cfg(&mut rng, false);
        let comp = *rng.pick(&[Comp::None, Comp::Brotli(2)]);
        let mut spec = CompressSpec::new(cfg, comp, 64);
        spec.stdin = if rng.chance(1, 3) { Some(rng.next_u64() | 1) } else { None };
        let (mut run, _) = scn::compress_run(&dir, "a", &source, &spec);
        let odir = dir.join("outdir");
        std::fs::create_dir_all(&odir).unwrap();
        let out = odir.join("a.cba");
        let n = run.args.len();
        run.args[n - 1] = p(&out);
        let temp = scn::temp_path_of(&out);
        run.watch = vec![out.clone(), temp.clone()];
        let errno = *rng.pick(&[libc::EACCES, libc::EPERM, libc::EBUSY, libc::EIO, libc::ENOSPC]);
        let what = match idx % 5 {
            0 | 1 => {
                run.ns_fault = Some(format!("1,unlink,{}", errno));
                "unlink of the temp file"
            }
            2 => {
                // the temp file is opened twice: to write it, then to copy it into the archive
                run.ns_fault = Some(format!("1,open,{},2", errno));
                "re-open of the temp file"
            }
            3 => {
                run.fault = Some(format!("1,{},errno,{}", rng.urange(0, 3), errno));
                "write to the temp file"
            }
            _ => {
                run.fault = Some(format!("0,{},errno,{}", rng.urange(0, 4), errno));
                "write to the archive"
            }
        };
        let before = listing(&odir);
        let o = proc::run(&run);
        rep.eval();
        if o.exit == Exit::Timeout {
            rep.inconclusive("watchdog");
            return Ok(());
        }
        let fired = o.shim.iter().any(|r| r.kind == crate::proc::K_FAULT);
        if !fired {
            rep.count("compress_fault.fault_not_reached", 1);
            return Ok(());
        }
        rep.count("compress_fault.faults_fired", 1);
        rep.seen("compress_fault.kinds", format!("{}/errno {}", what, errno));
        if !o.exit.ok() {
            rep.count("compress_fault.reported_as_failure", 1);
            rep.nontrivial(format!("compressfault:{}:{}#{}", what, errno, idx));
            return Ok(());
        }
        let after = listing(&odir);
        let mut want = before.clone();
        want.insert("a.cba".into());
        if after != want {
            return Err(format!("compress exited 0 although the {} failed (errno {}), and the output directory holds {:?} instead of {:?}", what, errno, after, want));
        }
        rep.nontrivial(format!("compressfault-ok:{}:{}#{}", what, errno, idx));
        Ok(())
    })();
    scn::cleanup(&dir, res.is_err());
    res.err()
}

/// Clones that FAIL late (after the output has been opened / written): wrong source
/// checksum with --verify-output, a corrupted chunk payload, a truncated archive. The
/// rule is the same: nothing but the output is written, nothing is removed or renamed.
fn failing_clone_case(rep: &Report, idx: usize, seed: u64) -> Option<String> {
    use crate::refimpl::chunker::Cfg;
    use crate::refimpl::enc::{self, ArchiveSpec};
    let mut rng = Rng::new(seed).fork(0x16f0 + idx as u64);
    let dir = scn::case_dir("C16", 80_000 + idx);
    let res = (|| -> Result<(), String> {
        let n = rng.urange(64, 600);
        let src_len = rng.urange(n * 3, n * 20);
        let source = gen::gen_source(&mut rng, gen::SrcClass::BlockRepetitive, src_len);
        let comp = *rng.pick(&[(0u32, 0u32), (3, 3), (2, 2)]);
        let spec = ArchiveSpec::plain(Cfg::fixed(n), 64, comp);
        let e = enc::encode_archive(&source, &spec).map_err(|x| format!("harness: {}", x));
        let Ok(e) = e else {
            rep.inconclusive("encoder");
            return Ok(());
        };
        let body = e.bytes[e.chunk_data_offset as usize..].to_vec();
        let kind = idx % 4;
        // kind 3: the archive is fine but a --seed cannot be opened (typo, no permission)
        let mut bad_seed: Option<PathBuf> = None;
        let (bytes, what, verify) = match kind {
            3 => {
                let sp = dir.join("seeds").join("missing-seed.bin");
                if rng.chance(1, 2) {
                    // a directory where a file is expected
                    let _ = std::fs::create_dir_all(&sp);
                }
                bad_seed = Some(sp);
                (e.bytes.clone(), "a --seed that cannot be opened", false)
            }
            0 => {
                let mut d = e.dict.clone();
                let k = rng.usize_below(d.source_checksum.len());
                d.source_checksum[k] ^= 1 << rng.below(8);
                (enc::assemble(&d, &spec.style, None, &body), "wrong source checksum + --verify-output", true)
            }
            1 => {
                let mut b = body.clone();
                let k = b.len() - 1 - rng.usize_below(b.len() / 3 + 1);
                b[k] ^= 0x40;
                (enc::assemble(&e.dict, &spec.style, None, &b), "corrupt chunk near the end", rng.chance(1, 2))
            }
            _ => {
                let cut = body.len() - rng.urange(1, body.len() / 2);
                (enc::assemble(&e.dict, &spec.style, None, &body[..cut]), "archive truncated in the chunk data", rng.chance(1, 2))
            }
        };
        let apath = dir.join("bad.cba");
        std::fs::write(&apath, &bytes).unwrap();
        let odir = dir.join("outdir");
        std::fs::create_dir_all(&odir).unwrap();
        // Every tenth case: the archive is fine but OUTPUT names a file in a directory that
        // does not exist (one or two missing levels): the clone must fail without creating
        // anything — directories are not "the given output".
        let missing_dir = idx % 10 == 4;
        let out = if missing_dir {
            let mut d = odir.join("not-there");
            if rng.chance(1, 2) {
                d = d.join("nor-this");
            }
            d.join("out.bin")
        } else {
            odir.join("out.bin")
        };
        let mode = (idx / 3) % 3; // 0 new, 1 --seed-output on existing, 2 -f on existing
        // Every tenth case: the archive is fine, but the existing output cannot be opened for
        // writing — it is an executable that is running (ETXTBSY) — and -f is given.
        let sleep_bin = ["/bin/sleep", "/usr/bin/sleep"].iter().map(Path::new).find(|p| p.exists());
        let busy = idx % 10 == 9 && sleep_bin.is_some();
        let (bytes, what, verify) = if busy { (e.bytes.clone(), "-f onto an output that is a running executable", false) } else { (bytes, what, verify) };
        let mode = if busy { 2 } else { mode };
        let (bytes, what, verify) = if missing_dir { (e.bytes.clone(), "output in a directory that does not exist", false) } else { (bytes, what, verify) };
        let mode = if missing_dir { [0, 2][(idx / 10) % 2] } else { mode };
        if missing_dir {
            std::fs::write(&apath, &bytes).unwrap();
            bad_seed = None;
        }
        let mut busy_child: Option<std::process::Child> = None;
        if busy {
            use std::os::unix::fs::PermissionsExt;
            std::fs::write(&apath, &bytes).unwrap();
            std::fs::copy(sleep_bin.unwrap(), &out).map_err(|e| e.to_string())?;
            std::fs::set_permissions(&out, std::fs::Permissions::from_mode(0o755)).map_err(|e| e.to_string())?;
            busy_child = std::process::Command::new(&out).arg("60").stdin(std::process::Stdio::null()).stdout(std::process::Stdio::null()).stderr(std::process::Stdio::null()).spawn().ok();
            if busy_child.is_none() {
                rep.inconclusive("could not start the executable used as busy output");
                return Ok(());
            }
        } else if mode > 0 && !missing_dir {
            std::fs::write(&out, gen::apply_edit(&mut rng, &source, gen::Edit::Swap)).unwrap();
        }
        let before_out = listing(&odir);
        let http = idx % 2 == 1;
        let server = if http { Some(Server::start(Arc::new(bytes.clone()), httpd::well_behaved())) } else { None };
        let cs = scn::CloneSpec {
            archive: server.as_ref().map(|x| x.url()).unwrap_or_else(|| p(&apath)),
            output: out.clone(),
            seed_output: mode == 1,
            force: mode == 2,
            verify_output: verify,
            seeds: {
                let mut v = Vec::new();
                if let Some(bs) = &bad_seed {
                    if rng.chance(1, 2) {
                        // a good seed first: part of the output is already written when the bad one is met
                        let gp = dir.join("good-seed.bin");
                        std::fs::write(&gp, &source[..source.len() / 2]).unwrap();
                        v.push(gp);
                    }
                    v.push(bs.clone());
                }
                v
            },
            ..Default::default()
        };
        let trace = dir.join("strace.out");
        let mut run = Run::new(&dir, "clone", scn::clone_args(&cs));
        run.use_shim = false;
        run.wrapper = strace_wrapper(&trace);
        let o = proc::run(&run);
        drop(server);
        if let Some(mut c) = busy_child {
            let _ = c.kill();
            let _ = c.wait();
        }
        rep.eval();
        if o.exit == Exit::Timeout {
            rep.inconclusive("watchdog");
            return Ok(());
        }
        if o.exit.ok() {
            // e.g. the corrupted byte was in a chunk a seed supplied; nothing to judge here
            rep.count("failing_clone.cases_that_succeeded", 1);
        }
        let Ok(text) = std::fs::read_to_string(&trace) else {
            rep.inconclusive("strace produced no output");
            return Ok(());
        };
        let _ = std::fs::remove_file(&trace);
        let act = analyse(&parse_strace(&text));
        if act.all_opens.is_empty() {
            rep.inconclusive("strace saw no file opens");
            return Ok(());
        }
        let out_s = p(&out);
        for (path, flags) in &act.write_opens {
            if *path != out_s {
                return Err(format!("failing clone ({}) opened {} with {}", what, path, flags));
            }
        }
        if let Some((name, args)) = act.namespace.first() {
            return Err(format!("failing clone ({}) performed {}({}) — nothing may be removed or renamed", what, name, args.chars().take(100).collect::<String>()));
        }
        let after_out = listing(&odir);
        if missing_dir && o.exit.ok() {
            return Err(format!("clone ({}) reported success: {:?} appeared", what, after_out));
        }
        if (mode > 0 || missing_dir) && after_out != before_out {
            return Err(format!("failing clone ({}) changed the output directory: {:?} -> {:?}", what, before_out, after_out));
        }
        if after_out.iter().any(|f| f != "out.bin") {
            return Err(format!("failing clone ({}) left {:?} in the output directory", what, after_out));
        }
        if !o.exit.ok() {
            rep.count("failing_clone.cases_judged", 1);
            rep.nontrivial(format!("failclone:{}:{}:{}#{}", what, mode, http, idx));
        }
        Ok(())
    })();
    scn::cleanup(&dir, res.is_err());
    res.err()
}

pub fn run(tier: Tier, seed: u64) -> i32 {
    let rep = Report::new("C16", "exploration", tier, seed);
    // Self-test of the analyser on a synthetic trace.
    {
        let t = "100 openat(AT_FDCWD, \"/x/side.tmp\", O_WRONLY|O_CREAT|O_CLOEXEC, 0666) = 5</x/side.tmp>\n100 unlink(\"/x/side.tmp\") = 0\n101 openat(AT_FDCWD, \"/x/in\", O_RDONLY|O_CLOEXEC <unfinished ...>\n101 <... openat resumed>) = 6</x/in>\n100 openat(AT_FDCWD, \"/nope\", O_RDONLY) = -1 ENOENT (No such file or directory)\n";
        let a = analyse(&parse_strace(t));
        if a.write_opens.len() != 1 || a.namespace.len() != 1 || a.all_opens.len() != 2 {
            rep.broken(format!("strace analyser self-test failed: {:?}", a));
        }
    }
    let n = tier.pick(200, 5000);
    let res = par_map(n, crate::util::ncpu(), |i| {
        let mut rng = Rng::new(seed).fork(0x1600 + i as u64);
        let focus = match i % 3 {
            0 => Focus::Seeds,
            1 => Focus::InPlace,
            _ => Focus::Mixed,
        };
        let mut sc = cc::gen_scenario(&mut rng, focus, (2, 5), true);
        sc.src_len = sc.src_len.min(20_000);
        let vh = rng.chance(1, 4);
        (i, clone_case(&rep, i, &sc, vh), sc)
    });
    for (i, r, sc) in res {
        if let Some(why) = r {
            let class: String = why.split(['/', '(']).next().unwrap_or("").chars().take(40).collect();
            rep.violation(
                &format!("c16/clone/{}/{}", sc.out_kind.name(), class.trim()),
                json!({"why": why, "scenario": sc.to_json(), "work_dir": format!("/verif/.work/C16/c{}", i)}),
                json!({"engine": "clone", "scenario": sc.to_json()}),
            );
        }
    }
    let nf = tier.pick(54, 1500);
    let res = par_map(nf, crate::util::ncpu(), |i| (i, failing_clone_case(&rep, i, seed)));
    for (i, r) in res {
        if let Some(why) = r {
            let class: String = why.split(['/', '{']).next().unwrap_or("").split(" opened ").next().unwrap_or("").chars().take(90).collect();
            rep.violation(
                &format!("c16/failing-clone/{}", class.trim()),
                json!({"why": why, "work_dir": format!("/verif/.work/C16/c{}", 80_000 + i)}),
                json!({"engine": "failing_clone", "idx": i, "seed": seed}),
            );
        }
    }
    let nc = tier.pick(120, 3000);
    let res = par_map(nc, crate::util::ncpu(), |i| (i, compress_case(&rep, i, seed)));
    for (i, r) in res {
        if let Some(why) = r {
            let class: String = why.split(['/', '(', '{']).next().unwrap_or("").chars().take(50).collect();
            rep.violation(
                &format!("c16/compress/{}", class.trim()),
                json!({"why": why, "work_dir": format!("/verif/.work/C16/c{}", 50_000 + i)}),
                json!({"engine": "compress", "idx": i, "seed": seed}),
            );
        }
    }
    let no = tier.pick(36, 600);
    let res = par_map(no, crate::util::ncpu(), |i| (i, odd_name_case(&rep, i, seed)));
    for (i, r) in res {
        if let Some(why) = r {
            let class: String = why.split(':').next().unwrap_or("").chars().take(60).collect();
            rep.violation(
                &format!("c16/odd-name/{}", class.trim()),
                json!({"why": why, "work_dir": format!("/verif/.work/C16/c{}", 160_000 + i)}),
                json!({"engine": "odd_name", "idx": i, "seed": seed}),
            );
        }
    }
    let nx = tier.pick(60, 1500);
    let res = par_map(nx, crate::util::ncpu(), |i| (i, compress_fault_case(&rep, i, seed)));
    for (i, r) in res {
        if let Some(why) = r {
            let class: String = why.split(" failed").next().unwrap_or("").chars().take(80).collect();
            rep.violation(
                &format!("c16/compress-fault/{}", class.trim()),
                json!({"why": why, "work_dir": format!("/verif/.work/C16/c{}", 120_000 + i)}),
                json!({"engine": "compress_fault", "idx": i, "seed": seed}),
            );
        }
    }
    if rep.counter("compress_fault.faults_fired") == 0 {
        rep.broken("no injected compress fault was reached".into());
    }
    if rep.counter("clone.file_opens_observed") == 0 || rep.counter("compress.temp_unlinks_observed") == 0 {
        rep.broken("strace monitor observed no opens / no temp-file unlink".into());
    }
    rep.finish(
        "real `bita clone` in every mode (plain, 1-4 seed files, stdin seed, --seed-output on regular file and block device via hook, --force-create on existing, --verify-header, --verify-output; local and HTTP) and real `bita compress` (file and stdin input, all codecs, --force-create, metadata files, output names with no / several extensions, stale temp file / neighbour files present) each run under `strace -f` with resolved paths; compress under injected errno faults (LD_PRELOAD shim) at the final unlink of the temp file, its re-open, a write to it or to the archive: exit 0 must still mean that only the archive is new; clone / compress onto paths that are not valid UTF-8 (raw directory listings: exactly the named file appears and holds the result); verdict per the rule in the header plus directory listings before/after; non-trivial = distinct traced runs judged",
        &[
            "character devices, /proc, /sys, sockets, pipes and read-only opens of system files are not files written by the command and are ignored by rule",
            "strace sees raw syscalls of all threads (-f); a process that bypassed libc would still be seen",
        ],
        json!({}),
        false,
    )
}

pub fn replay(v: &Value) -> i32 {
    let r = &v["replay"];
    let mut rep = Report::new("C16", "exploration", Tier::Quick, r["seed"].as_u64().unwrap_or(1));
    rep.replay_mode = true;
    let res = if r["engine"] == "clone" {
        clone_case(&rep, 900_000, &Scenario::from_json(&r["scenario"]), false)
    } else if r["engine"] == "odd_name" {
        odd_name_case(&rep, r["idx"].as_u64().unwrap_or(0) as usize, r["seed"].as_u64().unwrap_or(1))
    } else if r["engine"] == "compress_fault" {
        compress_fault_case(&rep, r["idx"].as_u64().unwrap_or(0) as usize, r["seed"].as_u64().unwrap_or(1))
    } else if r["engine"] == "failing_clone" {
        failing_clone_case(&rep, r["idx"].as_u64().unwrap_or(0) as usize, r["seed"].as_u64().unwrap_or(1))
    } else {
        compress_case(&rep, r["idx"].as_u64().unwrap_or(0) as usize, r["seed"].as_u64().unwrap_or(1))
    };
    match res {
        Some(w) => {
            println!("replay: VIOLATED: {}", w);
            println!("VIOLATION property=C16 replay=(replayed)");
            1
        }
        None => {
            println!("replay: property held on this case");
            0
        }
    }
}

#[allow(dead_code)]
fn unused(_: Comp) {}
