//! C13 — clone writes only source chunks at their offsets, once, skipping in-place ones.
//!
//! Monitor: the output's write interface — every write()/pwrite() of the real CLI
//! with its offset and bytes (LD_PRELOAD shim; cross-checked against strace in the
//! thorough tier), and the write log of the in-memory file in the library engine.
//! Oracle: byte-level rule (robust to write splitting): only source bytes at their
//! position, nothing at/after the source length, no position twice, nothing inside a
//! location the prior output already holds in place (R3), whole locations only.
use super::clone_common::{self as cc, Faults, Focus, OutKind, Scenario};
use super::layout::{self, Layout};
use crate::evidence::{Report, Tier};
use crate::inst::WriteFault;
use crate::proc::Exit;
use crate::scn;
use crate::util::{par_map, Rng};
use serde_json::{json, Value};

fn lib_layout(l: &Layout, chaos: Option<(u64, usize, u64)>) -> Result<(usize, bool), String> {
    let r = layout::execute(l, l.prior_bytes(), WriteFault::None, chaos);
    if r.panicked.is_some() || r.error.is_some() {
        // Failure on a valid layout is C03's business.
        return Ok((0, false));
    }
    layout::judge_c13(l, &r)?;
    Ok((r.writes.len(), !l.in_place().is_empty()))
}

fn lib_engine(rep: &Report, seed: u64, tier: Tier) {
    let (k, n, m) = tier.pick((3, 3, 3), (3, 4, 4));
    let shards = 64;
    let out = par_map(shards, crate::util::ncpu(), |sh| {
        let (mut evals, mut writes, mut with_in_place) = (0u64, 0u64, 0u64);
        let mut viol: Vec<(String, Layout)> = Vec::new();
        for kk in 1..=k {
            layout::enumerate(kk, n, m, &[1, 2, 3], sh, shards, &mut |l| {
                evals += 1;
                match lib_layout(l, None) {
                    Ok((w, ip)) => {
                        writes += w as u64;
                        with_in_place += ip as u64;
                    }
                    Err(why) => {
                        if viol.len() < 3 {
                            viol.push((why, l.clone()));
                        }
                    }
                }
            });
        }
        // random, larger
        let per = tier.pick(8000, 150_000);
        for j in 0..per {
            let mut rng = Rng::new(seed).fork(0x1300_0000 + (sh * per + j) as u64);
            let l = layout::random_layout(&mut rng, 12, 6, 8);
            let chaos = if j % 2 == 0 { Some((rng.next_u64(), 3, 5)) } else { None };
            evals += 1;
            match lib_layout(&l, chaos) {
                Ok((w, ip)) => {
                    writes += w as u64;
                    with_in_place += ip as u64;
                }
                Err(why) => {
                    if viol.len() < 3 {
                        viol.push((why, l));
                    }
                }
            }
        }
        (evals, writes, with_in_place, viol)
    });
    for (evals, writes, wip, viol) in out {
        rep.evals(evals);
        rep.count("lib.layouts", evals);
        rep.count("lib.write_calls_judged", writes);
        rep.count("lib.layouts_with_in_place_locations", wip);
        for (why, l) in viol {
            let class: String = why.chars().filter(|c| !c.is_ascii_digit()).take(44).collect();
            rep.violation(
                &format!("c13/lib/{}", class),
                json!({"why": why, "layout": l.describe()}),
                json!({"engine": "layout", "layout": l.to_json()}),
            );
        }
    }
}

pub fn one_scenario(rep: &Report, idx: usize, sc: &Scenario, keep: bool) -> Option<String> {
    let dir = scn::case_dir("C13", idx);
    let res = (|| -> Result<(), String> {
        let b = match cc::build(&dir, sc) {
            Ok(b) => b,
            Err(e) => {
                rep.inconclusive(&e.chars().take(40).collect::<String>());
                return Ok(());
            }
        };
        cc::prepare_output(&b, sc);
        let o = cc::run_clone(&dir, &b, sc, "clone", &Faults::default());
        rep.eval();
        if o.exit == Exit::Timeout {
            rep.inconclusive("watchdog");
            return Ok(());
        }
        if !o.shim_ok {
            rep.inconclusive("shim log unreadable");
            return Ok(());
        }
        if cc::failed(&o).is_some() {
            rep.inconclusive("clone failed on a valid scenario (judged by C01/C03/C05)");
            return Ok(());
        }
        let st = cc::judge_writes(&b, sc, &o)?;
        rep.count("process.write_calls_judged", o.writes.len() as u64);
        rep.count("process.bytes_written", st.bytes_written);
        rep.count("process.locations_written", st.locations_written as u64);
        rep.count("process.in_place_locations_untouched", st.in_place_locations as u64);
        rep.count(&format!("process.clones.{}", sc.out_kind.name()), 1);
        // Conservation: written + in place + (for block devices nothing else) covers the source.
        if st.in_place_locations > 0 && st.locations_written > 0 {
            rep.nontrivial(format!("p{}:{}", idx, sc.key()));
        }
        // The same clone with one write failing once (a bad sector): the run normally fails;
        // if it reports success, what it wrote must still obey the rule (nothing twice,
        // nothing into a location that was already right).
        if o.write_calls > 1 {
            let k = (sc.src_seed as usize ^ idx) % o.write_calls;
            cc::prepare_output(&b, sc);
            let of = cc::run_clone(&dir, &b, sc, "wf", &Faults { fault: Some(format!("0,{},errno,{}", k, libc::EIO)), ..Default::default() });
            rep.eval();
            if of.exit != Exit::Timeout && of.shim_ok && of.fault_fired {
                rep.count("process.one_shot_write_faults_fired", 1);
                if of.exit.ok() {
                    cc::judge_writes(&b, sc, &of).map_err(|e| format!("write #{} failed once (EIO), the clone still reported success, and its writes break the rule: {}", k, e))?;
                    rep.count("process.one_shot_write_fault_survived", 1);
                }
            }
        }
        rep.sample_if(idx % 31 == 0, || {
            json!({"scenario": sc.to_json(), "write_calls": o.writes.len(), "bytes_written": st.bytes_written,
                   "locations_written": st.locations_written, "in_place_locations": st.in_place_locations,
                   "first_writes": o.writes.iter().take(3).map(|(off, d)| json!([off, d.len()])).collect::<Vec<_>>()})
        });
        Ok(())
    })();
    scn::cleanup(&dir, keep && res.is_err());
    res.err()
}

/// Cross-check of the shim against strace: same number of write syscalls and bytes to
/// the output. A disagreement makes the run inconclusive, not green.
fn strace_crosscheck(rep: &Report, seed: u64, n: usize) {
    let r = par_map(n, crate::util::ncpu().min(8), |i| {
        let mut rng = Rng::new(seed).fork(0x1357 + i as u64);
        let mut sc = cc::gen_scenario(&mut rng, Focus::Mixed, (0, 1), false);
        sc.http = false;
        let dir = scn::case_dir("C13", 600_000 + i);
        let out = (|| -> Option<(usize, u64, usize, u64)> {
            let b = cc::build(&dir, &sc).ok()?;
            cc::prepare_output(&b, &sc);
            let o = cc::run_clone(&dir, &b, &sc, "shim", &Faults::default());
            if !o.exit.ok() {
                return None;
            }
            let shim_calls = o.write_calls;
            let shim_bytes: u64 = o.writes.iter().map(|w| w.1.len() as u64).sum();
            // Same clone under strace, no shim.
            cc::prepare_output(&b, &sc);
            let spec = cc::clone_spec(&b, &sc, crate::proc::p(&b.arch.path));
            let trace = dir.join("strace.out");
            let mut run = crate::proc::Run::new(&dir, "strace", scn::clone_args(&spec));
            run.use_shim = false;
            run.wrapper = vec![
                "strace".into(), "-f".into(), "-qq".into(), "-y".into(),
                "-e".into(), "trace=write,pwrite64,writev".into(),
                "-o".into(), crate::proc::p(&trace),
            ];
            if let Some(s) = &b.stdin_seed {
                run.stdin = Some((s.clone(), 0));
            }
            if sc.out_kind == OutKind::BlockDev {
                run.blockdev = Some(b.out_path.clone());
            }
            let o2 = crate::proc::run(&run);
            if !o2.exit.ok() {
                return None;
            }
            let text = std::fs::read_to_string(&trace).ok()?;
            let needle = format!("<{}>", b.out_path.display());
            let (mut calls, mut bytes) = (0usize, 0u64);
            for c in crate::proc::parse_strace(&text) {
                if matches!(c.name.as_str(), "write" | "pwrite64" | "writev") && c.args.contains(&needle) {
                    calls += 1;
                    if let Some(r) = c.ret_val() {
                        if r > 0 {
                            bytes += r as u64;
                        }
                    }
                }
            }
            Some((shim_calls, shim_bytes, calls, bytes))
        })();
        scn::cleanup(&dir, false);
        out
    });
    for x in r {
        match x {
            None => rep.inconclusive("strace cross-check case could not run"),
            Some((sc, sb, tc, tb)) => {
                if sc == tc && sb == tb {
                    rep.count("strace_crosscheck.agree", 1);
                } else {
                    rep.count("strace_crosscheck.disagree", 1);
                    rep.inconclusive("shim and strace disagree on the output's writes");
                    rep.note(format!("shim saw {} calls/{} bytes, strace {} calls/{} bytes", sc, sb, tc, tb));
                }
            }
        }
    }
}

pub fn run(tier: Tier, seed: u64) -> i32 {
    let rep = Report::new("C13", "exploration", tier, seed);
    // Self-test: the byte-level oracle must fire on a duplicated write, a wrong byte, a
    // write beyond the end and a write into an in-place location.
    {
        let l = Layout { sizes: vec![2, 2], prior: vec![(0, 2), (layout::GARBAGE, 2)], target: vec![0, 1], hash_len: 64 };
        let good = layout::execute(&l, l.prior_bytes(), WriteFault::None, None);
        if layout::judge_c13(&l, &good).is_err() {
            rep.broken("oracle rejects a correct write log".into());
        }
        let t = l.target_bytes();
        let bads: Vec<Vec<(u64, Vec<u8>)>> = vec![
            vec![(2, t[2..4].to_vec()), (2, t[2..4].to_vec())],
            vec![(2, vec![0, 0])],
            vec![(3, vec![t[3], 9])],
            vec![(0, t[0..2].to_vec())],
            vec![(2, t[2..3].to_vec())],
        ];
        for (i, w) in bads.into_iter().enumerate() {
            let r = layout::ExecResult { writes: w, ..Default::default() };
            if layout::judge_c13(&l, &r).is_ok() {
                rep.broken(format!("oracle accepted synthetic bad write log {}", i));
            }
        }
    }
    lib_engine(&rep, seed, tier);
    let n = tier.pick(1000, 10_000);
    let viols = par_map(n, crate::util::ncpu(), |i| {
        let mut rng = Rng::new(seed).fork(0x1300 + i as u64);
        let sc = cc::gen_scenario(&mut rng, if i % 3 == 0 { Focus::Seeds } else { Focus::InPlace }, (1, 4), true);
        let v = one_scenario(&rep, i, &sc, true);
        (i, sc, v)
    });
    for (i, sc, v) in viols {
        if let Some(why) = v {
            let class: String = why.chars().filter(|c| !c.is_ascii_digit() && *c != '#').take(60).collect();
            rep.violation(
                &format!("c13/process/{}/{}", sc.out_kind.name(), class.trim()),
                json!({"why": why, "scenario": sc.to_json(), "work_dir": format!("/verif/.work/C13/c{}", i)}),
                json!({"engine": "process", "scenario": sc.to_json()}),
            );
        }
    }
    strace_crosscheck(&rep, seed, tier.pick(6, 60));
    if rep.counter("process.write_calls_judged") == 0 || rep.counter("process.in_place_locations_untouched") == 0 {
        rep.broken("the write monitor observed no writes / no in-place location".into());
    }
    if rep.counter("strace_crosscheck.agree") == 0 {
        rep.broken("shim was never confirmed against strace".into());
    }
    rep.finish(
        "process engine: real `bita clone` (new file, --force-create, --seed-output on regular file and on block device via hook; seeds incl. duplicates; local and HTTP) under the LD_PRELOAD shim logging offset+bytes of every output write; library engine: all layouts of a small scope plus random layouts executed on an in-memory file (half with short writes/Pending); verdict = byte-level rule; a sample of clones is repeated under strace and must show the same write calls/bytes as the shim; non-trivial = clones where some locations were left in place and others written",
        &[
            "in-place locations come from R3 (R1 scan of the prior output + Blake2), not from bitar",
            "a failed clone is not judged here (C13 is about what a clone writes; failures belong to C01/C03/C05)",
        ],
        json!({}),
        false,
    )
}

pub fn replay(v: &Value) -> i32 {
    let r = &v["replay"];
    let mut rep = Report::new("C13", "exploration", Tier::Quick, 0);
    rep.replay_mode = true;
    let res = match r["engine"].as_str().unwrap_or("") {
        "layout" => lib_layout(&Layout::from_json(&r["layout"]), None).err(),
        _ => one_scenario(&rep, 900_000, &Scenario::from_json(&r["scenario"]), false),
    };
    match res {
        Some(w) => {
            println!("replay: VIOLATED: {}", w);
            println!("VIOLATION property=C13 replay=(replayed)");
            1
        }
        None => {
            println!("replay: property held on this case");
            0
        }
    }
}
