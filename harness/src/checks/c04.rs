//! C04 — corrupted or tampered data never yields a successful wrong clone.
//!
//! Fault enumeration: every single-bit flip and every truncation length of small
//! archives written by the real CLI, multi-byte overwrites, payload swaps, a stored
//! chunk replaced by its truncated-hash near-collision partner, trailing garbage,
//! lying servers, and `--verify-header` with every single-bit variant of the true
//! checksum. Monitor: exit status and output of the real `bita clone` / `bita info`
//! (and Results of the library). Oracle: exit 0 => output == source; a change inside
//! the header => open fails and no output is created.
use crate::evidence::{Report, Tier};
use crate::gen::{self, Comp, SrcClass};
use crate::httpd::{Action, Server};
use crate::inst::{FragPlan, PendPlan};
use crate::proc::{self, p, s, Exit, Run};
use crate::refimpl::chunker::{Algo, Cfg};
use crate::refimpl::codec;
use crate::scn::{self, Arch, CloneSpec, CompressSpec};
use crate::util::{first_diff, hex, par_map, Rng};
use serde_json::{json, Value};
use std::path::Path;
use std::sync::Arc;

#[derive(Clone, Debug)]
enum Mutation {
    Flip(usize, u8),
    Truncate(usize),
    Overwrite(usize, Vec<u8>),
    Append(Vec<u8>),
    /// Swap the stored payloads of descriptors i and j (body re-laid out if sizes differ).
    SwapPayload(usize, usize),
    /// Replace stored bytes at [off, off+len) by the given bytes (same length).
    Replace(usize, Vec<u8>),
    /// Two mutations applied one after the other (e.g. the other accepted file magic
    /// plus an edit elsewhere in the header).
    Both(Box<Mutation>, Box<Mutation>),
}

impl Mutation {
    fn apply(&self, a: &[u8], arch: &Arch) -> Vec<u8> {
        if let Mutation::Both(x, y) = self {
            let first = x.apply(a, arch);
            return y.apply(&first, arch);
        }
        let mut v = a.to_vec();
        match self {
            Mutation::Both(..) => unreachable!(),
            Mutation::Flip(pos, bit) => v[*pos] ^= 1 << bit,
            Mutation::Truncate(n) => v.truncate(*n),
            Mutation::Overwrite(pos, d) | Mutation::Replace(pos, d) => {
                for (i, b) in d.iter().enumerate() {
                    if pos + i < v.len() {
                        v[pos + i] = *b;
                    }
                }
            }
            Mutation::Append(d) => v.extend_from_slice(d),
            Mutation::SwapPayload(i, j) => {
                let m = &arch.model;
                let (oi, li) = m.desc_abs(*i);
                let (oj, lj) = m.desc_abs(*j);
                let (oi, oj) = (oi as usize, oj as usize);
                let pi = a[oi..oi + li].to_vec();
                let pj = a[oj..oj + lj].to_vec();
                if li == lj {
                    v[oi..oi + li].copy_from_slice(&pj);
                    v[oj..oj + lj].copy_from_slice(&pi);
                } else {
                    // Unequal sizes: write each payload at the other's offset, truncated
                    // or zero-padded to the slot.
                    for k in 0..li {
                        v[oi + k] = *pj.get(k).unwrap_or(&0);
                    }
                    for k in 0..lj {
                        v[oj + k] = *pi.get(k).unwrap_or(&0);
                    }
                }
            }
        }
        v
    }
    fn json(&self) -> Value {
        match self {
            Mutation::Flip(p, b) => json!({"flip": [p, b]}),
            Mutation::Truncate(n) => json!({"truncate": n}),
            Mutation::Overwrite(p, d) => json!({"overwrite": [p, hex(d)]}),
            Mutation::Replace(p, d) => json!({"replace": [p, hex(d)]}),
            Mutation::Append(d) => json!({"append": hex(d)}),
            Mutation::SwapPayload(i, j) => json!({"swap": [i, j]}),
            Mutation::Both(x, y) => json!({"both": [x.json(), y.json()]}),
        }
    }
    fn from(v: &Value) -> Mutation {
        if let Some(b) = v.get("both") {
            return Mutation::Both(Box::new(Mutation::from(&b[0])), Box::new(Mutation::from(&b[1])));
        }
        if let Some(f) = v.get("flip") {
            Mutation::Flip(f[0].as_u64().unwrap() as usize, f[1].as_u64().unwrap() as u8)
        } else if let Some(n) = v.get("truncate") {
            Mutation::Truncate(n.as_u64().unwrap() as usize)
        } else if let Some(o) = v.get("overwrite") {
            Mutation::Overwrite(o[0].as_u64().unwrap() as usize, crate::util::unhex(o[1].as_str().unwrap()))
        } else if let Some(o) = v.get("replace") {
            Mutation::Replace(o[0].as_u64().unwrap() as usize, crate::util::unhex(o[1].as_str().unwrap()))
        } else if let Some(a) = v.get("append") {
            Mutation::Append(crate::util::unhex(a.as_str().unwrap()))
        } else {
            Mutation::SwapPayload(v["swap"][0].as_u64().unwrap() as usize, v["swap"][1].as_u64().unwrap() as usize)
        }
    }
    /// Does the mutation change a byte of the header region?
    fn touches_header(&self, header_len: usize, _alen: usize) -> bool {
        match self {
            Mutation::Flip(p, _) => *p < header_len,
            Mutation::Truncate(n) => *n < header_len,
            Mutation::Overwrite(p, d) | Mutation::Replace(p, d) => *p < header_len && !d.is_empty(),
            Mutation::Append(_) => false,
            Mutation::SwapPayload(..) => false,
            Mutation::Both(x, y) => x.touches_header(header_len, _alen) || y.touches_header(header_len, _alen),
        }
    }
    fn kind(&self) -> &'static str {
        match self {
            Mutation::Flip(..) => "flip",
            Mutation::Truncate(_) => "truncate",
            Mutation::Overwrite(..) => "overwrite",
            Mutation::Replace(..) => "replace",
            Mutation::Append(_) => "append",
            Mutation::SwapPayload(..) => "swap_payload",
            Mutation::Both(..) => "magic_swap+header_edit",
        }
    }
}

#[derive(Clone, Debug)]
struct BaseSpec {
    src_seed: u64,
    src_len: usize,
    cfg: Cfg,
    comp: Comp,
    hash_len: usize,
    /// How compress was driven (must not matter for what protects the archive):
    /// source on stdin instead of -i FILE, and the --buffered-chunks value.
    via_stdin: bool,
    buffered: Option<usize>,
}

impl BaseSpec {
    fn json(&self) -> Value {
        json!({"src_seed": self.src_seed, "src_len": self.src_len, "cfg": super::c09::cfg_json(&self.cfg), "comp": self.comp.describe(), "hash_len": self.hash_len, "via_stdin": self.via_stdin, "buffered": self.buffered})
    }
    fn from(v: &Value) -> BaseSpec {
        let comp_s = v["comp"].as_str().unwrap();
        let comp = if comp_s == "none" {
            Comp::None
        } else {
            let (f, l) = comp_s.split_once('-').unwrap();
            let l: u32 = l.parse().unwrap();
            match f {
                "brotli" => Comp::Brotli(l),
                "zstd" => Comp::Zstd(l),
                _ => Comp::Lzma(l),
            }
        };
        BaseSpec {
            src_seed: v["src_seed"].as_u64().unwrap(),
            src_len: v["src_len"].as_u64().unwrap() as usize,
            cfg: super::c09::cfg_from(&v["cfg"]),
            comp,
            hash_len: v["hash_len"].as_u64().unwrap() as usize,
            via_stdin: v["via_stdin"].as_bool().unwrap_or(false),
            buffered: v["buffered"].as_u64().map(|x| x as usize),
        }
    }
    fn source(&self) -> Vec<u8> {
        // Half compressible so that compressed payloads exist.
        let mut rng = Rng::new(self.src_seed);
        let mut v = gen::gen_source(&mut rng, SrcClass::LowEntropy, self.src_len / 2);
        v.extend(rng.bytes(self.src_len - self.src_len / 2));
        v
    }
    fn build(&self, dir: &Path) -> Result<Arch, String> {
        let mut cs = CompressSpec::new(self.cfg, self.comp, self.hash_len);
        cs.buffered = self.buffered;
        cs.stdin = if self.via_stdin { Some(self.src_seed | 1) } else { None };
        scn::make_archive(dir, "a", &self.source(), &cs)
    }
}

/// Judge one corrupted archive through the real CLI. Returns Err on violation.
fn cli_case(dir: &Path, tag: &str, arch: &Arch, m: &Mutation, seed_file: Option<&Path>, verify_output: bool) -> Result<&'static str, String> {
    cli_case_mode(dir, tag, arch, m, seed_file, verify_output, false)
}

/// `in_place`: the output already holds the seed file's content and is updated with
/// --seed-output (a corrupted archive must not turn a partial in-place update into a
/// "successful" wrong output either).
fn cli_case_mode(dir: &Path, tag: &str, arch: &Arch, m: &Mutation, seed_file: Option<&Path>, verify_output: bool, in_place: bool) -> Result<&'static str, String> {
    let bad = m.apply(&arch.bytes, arch);
    if bad == arch.bytes {
        return Ok("noop");
    }
    let apath = dir.join(format!("{}.cba", tag));
    let out = dir.join(format!("{}.out", tag));
    std::fs::write(&apath, &bad).map_err(|e| e.to_string())?;
    let _ = std::fs::remove_file(&out);
    let in_place = in_place && seed_file.is_some();
    if in_place {
        std::fs::copy(seed_file.unwrap(), &out).map_err(|e| e.to_string())?;
    }
    let spec = CloneSpec {
        archive: p(&apath),
        output: out.clone(),
        seeds: if in_place { vec![] } else { seed_file.map(|x| vec![x.to_path_buf()]).unwrap_or_default() },
        seed_output: in_place,
        verify_output,
        // The clone pipeline's width must not matter (derived from the corrupted bytes so
        // that a case replays identically).
        buffered: [None, Some(1), Some(2), None, Some(1), Some(16)][(bad.iter().fold(bad.len() as u64, |a, b| a.wrapping_mul(31).wrapping_add(*b as u64)) % 6) as usize],
        ..Default::default()
    };
    let mut run = Run::new(dir, tag, scn::clone_args(&spec));
    run.use_shim = false;
    run.rlimit_as = Some(4 << 30);
    run.timeout = std::time::Duration::from_secs(60);
    if spec.buffered.is_none() && bad.len() % 3 == 1 {
        // default width on a single-CPU machine
        run.one_cpu = Some(bad.len());
    }
    let o = proc::run(&run);
    let header = m.touches_header(arch.model.parsed.header_len, arch.bytes.len());
    let res = (|| {
        if o.exit == Exit::Timeout {
            return Ok("timeout");
        }
        if o.exit.ok() {
            let got = std::fs::read(&out).unwrap_or_default();
            if got != arch.source {
                return Err(format!(
                    "clone of a corrupted archive reported success with a wrong output (first difference at byte {:?}, output {} bytes, source {} bytes)",
                    first_diff(&got, &arch.source),
                    got.len(),
                    arch.source.len()
                ));
            }
            if header {
                return Err("a change inside the header was accepted (clone succeeded)".into());
            }
            return Ok("survived");
        }
        if header && out.exists() && !in_place {
            return Err("a change inside the header was rejected only after the output file had been created".into());
        }
        Ok("rejected")
    })();
    // bita info must reject header changes too.
    let res = res.and_then(|r| {
        if header {
            let mut run = Run::new(dir, &format!("{}i", tag), vec![s("info"), p(&apath)]);
            run.use_shim = false;
            run.rlimit_as = Some(4 << 30);
            let oi = proc::run(&run);
            if oi.exit.ok() {
                return Err("a change inside the header was accepted by `bita info`".into());
            }
        }
        Ok(r)
    });
    let _ = std::fs::remove_file(&apath);
    let _ = std::fs::remove_file(&out);
    res
}

fn base_specs(rng: &mut Rng, n: usize) -> Vec<BaseSpec> {
    let comps = [Comp::None, Comp::Brotli(5), Comp::Zstd(3), Comp::Lzma(2), Comp::Brotli(11), Comp::Zstd(19), Comp::None, Comp::Lzma(6)];
    (0..n)
        .map(|i| BaseSpec {
            src_seed: rng.next_u64(),
            src_len: rng.urange(260, 420),
            cfg: if i % 2 == 0 {
                Cfg::fixed(rng.urange(48, 96))
            } else {
                Cfg { algo: if i % 4 == 1 { Algo::RollSum } else { Algo::BuzHash }, window: 8, min: 16, max: 128, bits: 5 }
            },
            comp: comps[i % comps.len()],
            hash_len: *rng.pick(&[8usize, 9, 16, 32, 64]),
            via_stdin: i % 2 == 1,
            buffered: [None, Some(1), Some(2), Some(3)][(i / 2 + i) % 4],
        })
        .collect()
}

/// Engine 1: exhaustive single-bit flips and truncations of small archives.
fn exhaustive(rep: &Report, seed: u64, tier: Tier) {
    let mut rng = Rng::new(seed).fork(0x0400);
    let specs = base_specs(&mut rng, tier.pick(2, 8));
    for (si, spec) in specs.iter().enumerate() {
        let dir = scn::case_dir("C04", si);
        let arch = match spec.build(&dir) {
            Ok(a) => a,
            Err(e) => {
                rep.inconclusive(&e.chars().take(40).collect::<String>());
                continue;
            }
        };
        let n = arch.bytes.len();
        let hl = arch.model.parsed.header_len;
        let mut muts: Vec<Mutation> = Vec::new();
        for pos in 0..n {
            for bit in 0..8 {
                muts.push(Mutation::Flip(pos, bit));
            }
        }
        for t in 0..n {
            muts.push(Mutation::Truncate(t));
        }
        // The other accepted file magic (6 changed bytes — no bit flip gets there) alone
        // and combined with an edit of every other header byte: still a header change.
        let other_magic = if &arch.bytes[..6] == codec::MAGIC { codec::MAGIC_LEGACY.to_vec() } else { codec::MAGIC.to_vec() };
        muts.push(Mutation::Overwrite(0, other_magic.clone()));
        for pos in 6..hl {
            muts.push(Mutation::Both(Box::new(Mutation::Overwrite(0, other_magic.clone())), Box::new(Mutation::Flip(pos, (pos % 8) as u8))));
        }
        // ... and with structured edits: swap two adjacent dictionary bytes
        for pos in 14..hl.saturating_sub(73) {
            if arch.bytes[pos] != arch.bytes[pos + 1] {
                muts.push(Mutation::Both(
                    Box::new(Mutation::Overwrite(0, other_magic.clone())),
                    Box::new(Mutation::Overwrite(pos, vec![arch.bytes[pos + 1], arch.bytes[pos]])),
                ));
            }
        }
        let seed_path = dir.join("seed.bin");
        std::fs::write(&seed_path, gen::apply_edit(&mut rng, &arch.source, gen::Edit::Overwrite)).unwrap();
        let res = par_map(muts.len(), crate::util::ncpu(), |i| {
            let with_seed = i % 5 == 0 || i % 11 == 3;
            cli_case_mode(&dir, &format!("m{}", i), &arch, &muts[i], if with_seed { Some(&seed_path) } else { None }, i % 7 == 0, i % 11 == 3)
        });
        let mut reported = 0;
        for (i, r) in res.into_iter().enumerate() {
            rep.eval();
            let region = match &muts[i] {
                Mutation::Flip(p, _) => if *p < hl { "header" } else { "payload" },
                Mutation::Truncate(_) => "truncate",
                _ => "magic_swap",
            };
            match r {
                Ok("timeout") => rep.inconclusive("watchdog"),
                Ok(k) => {
                    rep.count(&format!("exhaustive.{}.{}", region, k), 1);
                    rep.nontrivial(format!("{}:{:?}", si, muts[i]));
                }
                Err(why) => {
                    reported += 1;
                    if reported <= 3 {
                        let class: String = why.split('(').next().unwrap_or("").chars().take(60).collect();
                        rep.violation(
                            &format!("c04/exhaustive/{}/{}", region, class.trim()),
                            json!({"why": why, "mutation": muts[i].json(), "base": spec.json(), "archive_len": n, "header_len": hl}),
                            json!({"engine": "cli", "base": spec.json(), "mutation": muts[i].json()}),
                        );
                    }
                }
            }
        }
        rep.count("exhaustive.archives", 1);
        rep.count("exhaustive.archive_bytes", n as u64);
        rep.sample(json!({"base": spec.json(), "archive_len": n, "header_len": hl, "flips": n * 8, "truncations": n}));
        scn::cleanup(&dir, reported > 0);
    }
}

/// Engine 2: sampled structural corruptions on larger archives through the CLI.
fn sampled(rep: &Report, seed: u64, tier: Tier) {
    let n = tier.pick(30, 300);
    let res = par_map(n, crate::util::ncpu(), |i| {
        let mut rng = Rng::new(seed).fork(0x0410 + i as u64);
        let spec = BaseSpec {
            src_seed: rng.next_u64(),
            src_len: rng.urange(3000, 40_000),
            cfg: match rng.below(3) {
                0 => Cfg::fixed(rng.urange(200, 2000)),
                1 => Cfg { algo: Algo::RollSum, window: 32, min: 64, max: 4096, bits: 8 },
                _ => Cfg { algo: Algo::BuzHash, window: 16, min: 0, max: 2048, bits: 7 },
            },
            comp: gen::gen_comp(&mut rng, true),
            hash_len: *rng.pick(&[8usize, 12, 16, 64]),
            via_stdin: rng.chance(1, 2),
            buffered: *rng.pick(&[None, Some(1), Some(2), Some(8)]),
        };
        let dir = scn::case_dir("C04", 1000 + i);
        let mut out: Vec<(Result<&'static str, String>, Mutation)> = Vec::new();
        let arch = match spec.build(&dir) {
            Ok(a) => a,
            Err(_) => {
                scn::cleanup(&dir, false);
                return (spec, None, out);
            }
        };
        let nd = arch.model.parsed.dict.descs.len();
        let alen = arch.bytes.len();
        let mut muts = Vec::new();
        for _ in 0..12 {
            let l = rng.urange(1, 16);
            muts.push(Mutation::Overwrite(rng.usize_below(alen), rng.bytes(l)));
        }
        if nd >= 2 {
            for _ in 0..6 {
                let a = rng.usize_below(nd);
                let b = rng.usize_below(nd);
                if a != b {
                    muts.push(Mutation::SwapPayload(a, b));
                }
            }
        }
        let tl = rng.urange(1, 500);
        muts.push(Mutation::Append(rng.bytes(tl)));
        muts.push(Mutation::Truncate(alen - 1));
        muts.push(Mutation::Truncate(arch.model.parsed.header_len));
        let seed_path = dir.join("seed.bin");
        std::fs::write(&seed_path, gen::apply_edit(&mut rng, &arch.source, gen::Edit::Mixed)).unwrap();
        for (k, m) in muts.into_iter().enumerate() {
            let r = cli_case(&dir, &format!("s{}", k), &arch, &m, if k % 2 == 0 { Some(&seed_path) } else { None }, k % 3 == 0);
            out.push((r, m));
        }
        scn::cleanup(&dir, out.iter().any(|x| x.0.is_err()));
        (spec, Some(alen), out)
    });
    for (spec, alen, out) in res {
        if alen.is_none() {
            rep.inconclusive("archive build");
            continue;
        }
        for (r, m) in out {
            rep.eval();
            match r {
                Ok("timeout") => rep.inconclusive("watchdog"),
                Ok(k) => {
                    rep.count(&format!("sampled.{}.{}", m.kind(), k), 1);
                    rep.nontrivial(format!("{}:{:?}", spec.src_seed, m.json()));
                }
                Err(why) => {
                    let class: String = why.split('(').next().unwrap_or("").chars().take(60).collect();
                    rep.violation(
                        &format!("c04/sampled/{}/{}", m.kind(), class.trim()),
                        json!({"why": why, "mutation": m.json(), "base": spec.json()}),
                        json!({"engine": "cli", "base": spec.json(), "mutation": m.json()}),
                    );
                }
            }
        }
    }
}

/// Engine 3: a stored (uncompressed) chunk replaced by its near-collision partner.
fn near_collision(rep: &Report, seed: u64, tier: Tier) {
    let n = tier.pick(8, 40);
    let res = par_map(n, crate::util::ncpu(), |i| {
        let mut rng = Rng::new(seed).fork(0x0420 + i as u64);
        let k = if tier == Tier::Thorough && i % 8 == 7 { 5 } else { 4 };
        let bs = rng.urange(8, 48);
        let Some((a, a2)) = super::clone_common::near_collision(rng.next_u64(), bs, k) else {
            return (None, k, json!(null));
        };
        let hash_len = *rng.pick(&[k + 1, 8, 16, 64]).max(&8);
        let source: Vec<u8> = [rng.bytes(bs), a.clone(), rng.bytes(bs)].concat();
        let dir = scn::case_dir("C04", 2000 + i);
        let r = (|| -> Result<&'static str, String> {
            let arch = scn::make_archive(&dir, "a", &source, &CompressSpec::new(Cfg::fixed(bs), Comp::None, hash_len)).map_err(|_| "build".to_string())?;
            // locate the stored chunk A (descriptor 1)
            let (off, len) = arch.model.desc_abs(1);
            if arch.bytes[off as usize..off as usize + len] != a[..] {
                return Err("build".into());
            }
            cli_case(&dir, "nc", &arch, &Mutation::Replace(off as usize, a2.clone()), None, false)
        })();
        scn::cleanup(&dir, false);
        (Some(r), k, json!({"k": k, "block": bs, "hash_len": hash_len}))
    });
    for (r, k, info) in res {
        rep.eval();
        match r {
            None => rep.inconclusive("near-collision search failed"),
            Some(Err(e)) if e == "build" => rep.inconclusive("near-collision archive build"),
            Some(Ok(kind)) => {
                rep.count(&format!("near_collision.k{}.{}", k, kind), 1);
                rep.nontrivial(format!("nc:{}", info));
            }
            Some(Err(why)) => rep.violation(
                "c04/near-collision/stored chunk replaced by near-collision partner accepted",
                json!({"why": why, "info": info}),
                json!({"engine": "near_collision", "seed": seed}),
            ),
        }
    }
}

/// Engine 4: --verify-header with the exact checksum, every single-bit variant, and the
/// checksum of a different archive.
fn verify_header(rep: &Report, seed: u64, tier: Tier) {
    let mut rng = Rng::new(seed).fork(0x0430);
    let specs = base_specs(&mut rng, tier.pick(1, 3));
    for (si, spec) in specs.iter().enumerate() {
        let dir = scn::case_dir("C04", 3000 + si);
        let Ok(arch) = spec.build(&dir) else {
            rep.inconclusive("archive build");
            continue;
        };
        let true_sum = arch.model.parsed.header_checksum;
        let mut variants: Vec<(String, bool)> = vec![(hex(&true_sum), true)];
        for bit in 0..512 {
            let mut v = true_sum;
            v[bit / 8] ^= 1 << (bit % 8);
            variants.push((hex(&v), false));
        }
        variants.push((hex(&crate::util::b2(b"another archive")), false));
        let http = si % 2 == 1;
        let server = if http { Some(Server::start(Arc::new(arch.bytes.clone()), crate::httpd::well_behaved())) } else { None };
        let res = par_map(variants.len(), crate::util::ncpu(), |i| {
            let out = dir.join(format!("vh{}.out", i));
            let _ = std::fs::remove_file(&out);
            let spec = CloneSpec {
                archive: server.as_ref().map(|s| s.url()).unwrap_or_else(|| p(&arch.path)),
                output: out.clone(),
                verify_header: Some(variants[i].0.clone()),
                ..Default::default()
            };
            let mut run = Run::new(&dir, &format!("vh{}", i), scn::clone_args(&spec));
            run.use_shim = false;
            let o = proc::run(&run);
            let created = out.exists();
            let content = std::fs::read(&out).ok();
            let _ = std::fs::remove_file(&out);
            (o.exit, created, content)
        });
        for (i, (exit, created, content)) in res.into_iter().enumerate() {
            rep.eval();
            let (val, matches) = &variants[i];
            if exit == Exit::Timeout {
                rep.inconclusive("watchdog");
                continue;
            }
            let bad = if *matches {
                if !exit.ok() {
                    Some("clone with the true header checksum was refused".to_string())
                } else if content.as_deref() != Some(&arch.source[..]) {
                    Some("clone with the true header checksum produced a wrong output".to_string())
                } else {
                    None
                }
            } else if exit.ok() {
                Some("clone proceeded although the supplied header checksum differs from the archive's".to_string())
            } else if created {
                Some("header checksum mismatch was detected only after the output had been created".to_string())
            } else {
                None
            };
            match bad {
                None => {
                    rep.count(if *matches { "verify_header.exact_accepted" } else { "verify_header.mismatch_refused" }, 1);
                    rep.nontrivial(format!("vh{}:{}", si, i));
                }
                Some(why) => rep.violation(
                    &format!("c04/verify-header/{}", why.chars().take(50).collect::<String>()),
                    json!({"why": why, "supplied": val, "true": hex(&true_sum), "http": http}),
                    json!({"engine": "verify_header", "seed": seed}),
                ),
            }
        }
        drop(server);
        scn::cleanup(&dir, false);
    }
}

/// Engine 5: lying servers (CLI over HTTP).
fn lying_server(rep: &Report, seed: u64, tier: Tier) {
    let n = tier.pick(300, 3000);
    let res = par_map(n, crate::util::ncpu(), |i| {
        let mut rng = Rng::new(seed).fork(0x0440 + i as u64);
        let spec = BaseSpec {
            src_seed: rng.next_u64(),
            src_len: rng.urange(500, 8000),
            cfg: Cfg::fixed(rng.urange(100, 700)),
            comp: gen::gen_comp(&mut rng, true),
            hash_len: *rng.pick(&[8usize, 16, 64]),
            via_stdin: rng.chance(1, 2),
            buffered: *rng.pick(&[None, Some(1), Some(2), Some(8)]),
        };
        let dir = scn::case_dir("C04", 4000 + i);
        let Ok(arch) = spec.build(&dir) else {
            scn::cleanup(&dir, false);
            return (None, String::new());
        };
        // Which request lies (0,1 = header requests, >=2 chunk data) and how.
        let target = rng.below(5);
        let how = rng.below(6);
        let lie_seed = rng.next_u64();
        let desc = format!("request#{} {}", target, ["wrong bytes", "error page 404 of requested length", "error page 500 of requested length", "short body", "one byte flipped", "this and every later request answered from ANOTHER valid archive (--verify-header given)"][how as usize]);
        // how == 5: a stateful server (or a file replaced under the same URL) switches to a
        // different, perfectly valid archive in mid-run; the user pinned the genuine header.
        let other: Option<Arc<Vec<u8>>> = if how == 5 {
            let mut s2 = spec.clone();
            s2.src_seed = spec.src_seed.wrapping_add(0x9e37);
            let d2 = dir.join("other");
            let _ = std::fs::create_dir_all(&d2);
            s2.build(&d2).ok().map(|a| Arc::new(a.bytes))
        } else {
            None
        };
        if how == 5 && other.is_none() {
            scn::cleanup(&dir, false);
            return (None, String::new());
        }
        let other2 = other.clone();
        let server = Server::start(
            Arc::new(arch.bytes.clone()),
            Arc::new(move |req, f| {
                if how == 5 {
                    if req.n < target {
                        return Action::Full;
                    }
                    let o = other2.as_ref().unwrap();
                    let (a, b) = req.range.unwrap_or((0, 0));
                    let (a, b) = ((a as usize).min(o.len()), ((b + 1) as usize).min(o.len()));
                    return Action::Custom { status: 206, declared_len: None, body: o[a..b.max(a)].to_vec() };
                }
                if req.n != target {
                    return Action::Full;
                }
                let (a, b) = req.range.unwrap_or((0, 0));
                let len = (b + 1 - a) as usize;
                let mut rng = Rng::new(lie_seed);
                match how {
                    0 => Action::Custom { status: 206, declared_len: None, body: rng.bytes(len) },
                    1 | 2 => {
                        let mut page = b"<html><body><h1>Error</h1><p>The requested resource is not available.</p>".to_vec();
                        while page.len() < len {
                            page.extend_from_slice(b" <!-- padding -->");
                        }
                        page.truncate(len);
                        Action::Custom { status: if how == 1 { 404 } else { 500 }, declared_len: None, body: page }
                    }
                    3 => {
                        let cut = rng.urange(0, len.saturating_sub(1));
                        Action::Custom { status: 206, declared_len: None, body: f[a as usize..a as usize + cut].to_vec() }
                    }
                    _ => {
                        let mut body = f[a as usize..(a as usize + len).min(f.len())].to_vec();
                        if !body.is_empty() {
                            let k = rng.usize_below(body.len());
                            body[k] ^= 1 << rng.below(8);
                        }
                        Action::Custom { status: 206, declared_len: None, body }
                    }
                }
            }),
        );
        let out = dir.join("o.bin");
        let cs = CloneSpec {
            archive: server.url(),
            output: out.clone(),
            verify_output: i % 4 == 0,
            buffered: [None, Some(1), Some(2)][(i / 4) % 3],
            verify_header: if how == 5 { Some(crate::util::hex(&arch.model.parsed.header_checksum)) } else { None },
            ..Default::default()
        };
        let mut run = Run::new(&dir, "clone", scn::clone_args(&cs));
        run.use_shim = false;
        let o = proc::run(&run);
        let lied = server.take_log().iter().any(|r| r.req.n == target);
        let r = if o.exit == Exit::Timeout {
            Ok("timeout")
        } else if o.exit.ok() {
            let got = std::fs::read(&out).unwrap_or_default();
            if got != arch.source {
                Err(format!("server lied ({}) and the clone reported success with a wrong output (first difference {:?})", desc, first_diff(&got, &arch.source)))
            } else if lied {
                Ok("survived")
            } else {
                Ok("lie_not_reached")
            }
        } else {
            Ok("rejected")
        };
        drop(server);
        scn::cleanup(&dir, r.is_err());
        (Some(r), desc)
    });
    for (r, desc) in res {
        rep.eval();
        match r {
            None => rep.inconclusive("archive build"),
            Some(Ok("timeout")) => rep.inconclusive("watchdog"),
            Some(Ok(k)) => {
                rep.count(&format!("lying_server.{}", k), 1);
                if k != "lie_not_reached" {
                    rep.nontrivial(format!("lie:{}:{}", desc, rep.counter("lying_server.rejected")));
                }
            }
            Some(Err(why)) => rep.violation(
                "c04/lying-server/success with wrong output",
                json!({"why": why, "lie": desc}),
                json!({"engine": "lying_server", "seed": seed}),
            ),
        }
    }
}

/// Engine 6: library, in-process, many random corruptions of larger archives.
fn library(rep: &Report, seed: u64, tier: Tier) {
    let narch = tier.pick(16, 64);
    let per = tier.pick(1500, 12_000);
    let res = par_map(narch, crate::util::ncpu(), |ai| {
        let mut rng = Rng::new(seed).fork(0x0450 + ai as u64);
        let spec = BaseSpec {
            src_seed: rng.next_u64(),
            src_len: rng.urange(2000, 60_000),
            cfg: match rng.below(3) {
                0 => Cfg::fixed(rng.urange(100, 3000)),
                1 => Cfg { algo: Algo::RollSum, window: 32, min: 64, max: 8192, bits: 9 },
                _ => Cfg { algo: Algo::BuzHash, window: 16, min: 32, max: 4096, bits: 8 },
            },
            comp: gen::gen_comp(&mut rng, true),
            hash_len: *rng.pick(&[8usize, 10, 16, 64]),
            via_stdin: rng.chance(1, 2),
            buffered: *rng.pick(&[None, Some(1), Some(2), Some(8)]),
        };
        let dir = scn::case_dir("C04", 5000 + ai);
        let arch = spec.build(&dir);
        scn::cleanup(&dir, false);
        let Ok(arch) = arch else { return (0u64, 0u64, 0u64, vec![]) };
        let rt = crate::exec::rt_multi(1);
        let (mut n, mut rejected, mut survived) = (0u64, 0u64, 0u64);
        let mut viol = Vec::new();
        for _ in 0..per {
            let alen = arch.bytes.len();
            let m = match rng.below(6) {
                0 => Mutation::Flip(rng.usize_below(alen), rng.below(8) as u8),
                1 => Mutation::Truncate(rng.usize_below(alen)),
                2 => {
                    let l = rng.urange(1, 40);
                    Mutation::Overwrite(rng.usize_below(alen), rng.bytes(l))
                }
                3 => {
                    let nd = arch.model.parsed.dict.descs.len();
                    if nd >= 2 { Mutation::SwapPayload(rng.usize_below(nd), rng.usize_below(nd)) } else { Mutation::Flip(alen - 1, 0) }
                }
                4 => {
                    // flip inside a payload specifically
                    let hl = arch.model.parsed.header_len;
                    if alen > hl { Mutation::Flip(hl + rng.usize_below(alen - hl), rng.below(8) as u8) } else { Mutation::Flip(0, 0) }
                }
                _ => {
                    let l = rng.urange(1, 100);
                    Mutation::Append(rng.bytes(l))
                }
            };
            let bad = m.apply(&arch.bytes, &arch);
            if bad == arch.bytes {
                continue;
            }
            n += 1;
            let r = crate::util::catch(|| {
                rt.block_on(crate::lib_drv::lib_clone_io(Arc::new(bad.clone()), FragPlan::All, PendPlan::Never, &[], 2))
            });
            match r {
                Err(_) => rejected += 1, // panic: judged by C15
                Ok(Err(_)) => rejected += 1,
                Ok(Ok((file, _))) => {
                    if file.data != arch.source {
                        if viol.len() < 2 {
                            viol.push((format!("library clone of a corrupted archive returned Ok with a wrong output (first difference {:?})", first_diff(&file.data, &arch.source)), m.json(), spec.json()));
                        }
                    } else if m.touches_header(arch.model.parsed.header_len, alen) {
                        if viol.len() < 2 {
                            viol.push(("a change inside the header was accepted by Archive::try_init".to_string(), m.json(), spec.json()));
                        }
                    } else {
                        survived += 1;
                    }
                }
            }
        }
        (n, rejected, survived, viol)
    });
    for (n, rejected, survived, viol) in res {
        rep.evals(n);
        rep.count("library.corruptions", n);
        rep.count("library.rejected", rejected);
        rep.count("library.survived_with_exact_output", survived);
        for (why, m, base) in viol {
            rep.violation(
                &format!("c04/library/{}", why.split('(').next().unwrap_or("").chars().take(60).collect::<String>().trim()),
                json!({"why": why, "mutation": m, "base": base}),
                json!({"engine": "library", "base": base, "mutation": m}),
            );
        }
    }
}

pub fn run(tier: Tier, seed: u64) -> i32 {
    let rep = Report::new("C04", "fault_enumeration", tier, seed);
    exhaustive(&rep, seed, tier);
    sampled(&rep, seed, tier);
    near_collision(&rep, seed, tier);
    verify_header(&rep, seed, tier);
    lying_server(&rep, seed, tier);
    library(&rep, seed, tier);
    if rep.counter("exhaustive.header.rejected") == 0 || rep.counter("exhaustive.payload.rejected") == 0 || rep.counter("verify_header.mismatch_refused") == 0 {
        rep.broken("corruption workload did not reach header / payload / verify-header cases".into());
    }
    rep.finish(
        "small archives written by the real CLI (hash length >= 8; none/brotli/zstd/lzma; fixed and rolling chunkers): EVERY single-bit flip and EVERY truncation length cloned by the real CLI (a fifth with a seed, a seventh with --verify-output), header-region changes also through `bita info`; larger archives: multi-byte overwrites, payload swaps, trailing garbage; stored chunk replaced by a same-length block whose Blake2 agrees on the first 4(5) bytes only; --verify-header with the exact value, all 512 single-bit variants and a foreign checksum (local and HTTP); lying servers (wrong bytes, 404/500 error page of the requested length, short body, flipped byte) on header and chunk requests; library engine with random corruptions in-process; verdict: exit 0 / Ok => output == source, header change => rejected with no output created; non-trivial = distinct corruptions that changed the archive",
        &[
            "a panic or abort counts as 'failed' here and is judged by C15",
            "hash length >= 8 as stated by the property (random collisions at 4 bytes are inherent to truncation)",
        ],
        json!({"exhaustive_scope": "all bit flips and all truncations of each small archive"}),
        true,
    )
}

pub fn replay(v: &Value) -> i32 {
    let r = &v["replay"];
    let engine = r["engine"].as_str().unwrap_or("");
    if engine == "cli" || engine == "library" {
        let spec = BaseSpec::from(&r["base"]);
        let m = Mutation::from(&r["mutation"]);
        let dir = scn::case_dir("C04", 900_000);
        let res = spec.build(&dir).and_then(|arch| {
            if engine == "cli" {
                cli_case(&dir, "replay", &arch, &m, None, false).map(|_| ())
            } else {
                let rt = crate::exec::rt_multi(1);
                let bad = m.apply(&arch.bytes, &arch);
                match crate::util::catch(|| rt.block_on(crate::lib_drv::lib_clone_io(Arc::new(bad), FragPlan::All, PendPlan::Never, &[], 2))) {
                    Ok(Ok((f, _))) if f.data != arch.source => Err("library clone returned Ok with a wrong output".into()),
                    Ok(Ok(_)) if m.touches_header(arch.model.parsed.header_len, arch.bytes.len()) => Err("header change accepted".into()),
                    _ => Ok(()),
                }
            }
        });
        scn::cleanup(&dir, false);
        return match res {
            Err(w) => {
                println!("replay: VIOLATED: {}", w);
                println!("VIOLATION property=C04 replay=(replayed)");
                1
            }
            Ok(()) => {
                println!("replay: property held on this case");
                0
            }
        };
    }
    let seed = r["seed"].as_u64().unwrap_or(1);
    let mut rep = Report::new("C04", "fault_enumeration", Tier::Quick, seed);
    rep.replay_mode = true;
    match engine {
        "near_collision" => near_collision(&rep, seed, Tier::Quick),
        "verify_header" => verify_header(&rep, seed, Tier::Quick),
        _ => lying_server(&rep, seed, Tier::Quick),
    }
    if rep.violations() > 0 { 1 } else { 0 }
}
