//! C12 — compress is deterministic: same input and options, same archive bytes.
//!
//! Monitor: archive bytes of repeated runs of the real CLI / library writer under
//! different buffered-chunks counts, thread counts, input delivery and injected
//! delays; hook log gives the completion order actually realised by each run.
//! Oracle: byte equality of all archives of one (source, options, writer) group.
use super::ccommon::{self, CCase, Injection, Writer};
use crate::evidence::{Report, Tier};
use crate::proc::{self, Exit};
use crate::refimpl::chunker as r1;
use crate::scn;
use crate::util::{first_diff, par_map, short_id, Rng};
use serde_json::{json, Value};
use std::collections::BTreeSet;

struct GroupResult {
    violation: Option<String>,
    runs: usize,
    fingerprints: BTreeSet<String>,
    variants: Vec<Value>,
}

/// Run one determinism group: reference run + `reps` perturbed runs.
fn group(rep: &Report, idx: usize, base: &CCase, reps: usize, seed: u64, keep: bool) -> GroupResult {
    let dir = scn::case_dir("C12", idx);
    let source = base.source();
    let mut res = GroupResult {
        violation: None,
        runs: 0,
        fingerprints: BTreeSet::new(),
        variants: vec![],
    };
    if ccommon::truncated_collision(&source, &base.spec.cfg, base.spec.hash_len) {
        rep.inconclusive("truncated-hash collision in generated source");
        scn::cleanup(&dir, false);
        return res;
    }
    let nchunks = if source.is_empty() { 0 } else { r1::chunk(&base.spec.cfg, &source).len() };
    let mut rng = Rng::new(seed).fork(idx as u64);
    let mut reference: Option<Vec<u8>> = None;
    for k in 0..=reps {
        let mut case = base.clone();
        let mut inj = Injection::none();
        if k > 0 {
            // Vary everything the property says must not matter.
            case.spec.buffered = *rng.pick(&[Some(1), Some(2), Some(3), Some(8), Some(64), None]);
            if base.writer != Writer::Lib {
                if rng.chance(1, 2) {
                    case.writer = Writer::CliStdin;
                    case.spec.stdin = Some(if rng.chance(1, 4) { 0 } else { rng.next_u64() | 1 });
                } else {
                    case.writer = Writer::CliFile;
                    case.spec.stdin = None;
                }
            }
            if base.writer != Writer::Lib && rng.chance(1, 4) {
                // Writing over an older, larger file with --force-create must not matter either.
                case.spec.force = true;
                case.spec.preexisting = Some(source.len() * 2 + rng.urange(500, 100_000));
            } else if base.writer != Writer::Lib {
                case.spec.force = false;
                case.spec.preexisting = None;
            }
            inj = Injection::gen(&mut rng);
            // Make sure most repetitions really perturb the workers.
            if inj.hook_delay_us == 0 && rng.chance(2, 3) {
                inj.hook_delay_us = 1500;
            }
            super::c11::cap_injection(&mut inj, nchunks);
        }
        let obs = ccommon::run_case(&dir, &format!("r{}", k), &source, &case, &inj);
        rep.eval();
        res.runs += 1;
        if obs.exit == Exit::Timeout || obs.exit.hit_cpu_limit() {
            rep.inconclusive("watchdog / CPU budget of the case exhausted");
            continue;
        }
        if !obs.exit.ok() {
            rep.inconclusive("compress exited non-zero (judged by C01)");
            if std::env::var("VERIF_DEBUG").is_ok() {
                eprintln!("C12 debug: {} {:?} :: {}", case.spec.describe(), case.writer.name(), obs.tail);
            }
            continue;
        }
        let Some(bytes) = obs.archive else {
            rep.inconclusive("no archive although exit 0 (judged by C01)");
            continue;
        };
        if let Some(fp) = &obs.fingerprint {
            res.fingerprints.insert(fp.clone());
        }
        if obs.max_overlap > 1 {
            rep.count("runs_with_overlapping_workers", 1);
        }
        rep.count("hook_events", obs.hook_events as u64);
        res.variants.push(json!({"k": k, "writer": case.writer.name(), "buffered": case.spec.buffered,
            "stdin": case.spec.stdin, "inj": inj.to_json(), "fingerprint": obs.fingerprint,
            "archive": short_id(&bytes), "len": bytes.len()}));
        match &reference {
            None => reference = Some(bytes),
            Some(r) => {
                if *r != bytes && res.violation.is_none() {
                    res.violation = Some(format!(
                        "run {} differs from the reference run: lengths {} vs {}, first difference at byte {:?}",
                        k,
                        bytes.len(),
                        r.len(),
                        first_diff(r, &bytes)
                    ));
                }
            }
        }
    }
    scn::cleanup(&dir, keep && res.violation.is_some());
    res
}

/// Memory pressure: the C encoders (lzma, zstd) report an allocation failure as an error,
/// and how many encoders are alive at once depends on --buffered-chunks and scheduling.
/// Under an address-space limit a run may therefore fail — loudly — but a run that exits
/// 0 must still have written the reference bytes.
fn memory_pressure_group(rep: &Report, idx: usize, seed: u64) -> Option<String> {
    use crate::refimpl::chunker::Cfg;
    let mut rng = Rng::new(seed).fork(0x12a0 + idx as u64);
    let dir = scn::case_dir("C12", 70_000 + idx);
    let res = (|| -> Result<(), String> {
        // (codec level, limit): an lzma level-9 encoder needs ~ 674 MiB, level 7 ~ 186 MiB
        let (comp, limit_mib) = *rng.pick(&[(crate::gen::Comp::Lzma(9), 1500u64), (crate::gen::Comp::Lzma(9), 2200), (crate::gen::Comp::Lzma(7), 600), (crate::gen::Comp::Lzma(8), 1100)]);
        let n = rng.urange(8_000, 20_000);
        let src_len = n * rng.urange(8, 16) + rng.urange(0, n - 1);
        let source = crate::gen::gen_source(&mut rng, crate::gen::SrcClass::LowEntropy, src_len);
        let mut spec = scn::CompressSpec::new(Cfg::fixed(n), comp, 64);
        spec.buffered = Some(1);
        let (mut run, out_path) = scn::compress_run(&dir, "ref", &source, &spec);
        run.use_shim = false;
        run.timeout = std::time::Duration::from_secs(300);
        let o = proc::run(&run);
        rep.eval();
        if !o.exit.ok() {
            rep.inconclusive("memory-pressure reference run did not succeed");
            return Ok(());
        }
        let reference = std::fs::read(&out_path).map_err(|e| e.to_string())?;
        for (k, b) in [1usize, 2, 8, 64].into_iter().enumerate() {
            spec.buffered = Some(b);
            let (mut run, out_path) = scn::compress_run(&dir, &format!("r{}", k), &source, &spec);
            run.use_shim = false;
            run.rlimit_as = Some(limit_mib << 20);
            run.timeout = std::time::Duration::from_secs(300);
            let o = proc::run(&run);
            rep.eval();
            if o.exit == Exit::Timeout {
                rep.inconclusive("watchdog (memory pressure)");
                continue;
            }
            if !o.exit.ok() {
                rep.count("memory_pressure.runs_that_failed_loudly", 1);
                continue;
            }
            rep.count("memory_pressure.runs_that_succeeded", 1);
            let bytes = std::fs::read(&out_path).map_err(|e| e.to_string())?;
            if bytes != reference {
                return Err(format!(
                    "{} under an address-space limit of {} MiB with --buffered-chunks {}: exit 0 but the archive differs from the unconstrained run (lengths {} vs {}, first difference at byte {:?})",
                    comp.describe(), limit_mib, b, bytes.len(), reference.len(), first_diff(&reference, &bytes)
                ));
            }
        }
        rep.nontrivial(format!("mem:{}:{}:{}", comp.describe(), limit_mib, idx));
        Ok(())
    })();
    scn::cleanup(&dir, res.is_err());
    res.err()
}

/// Input faults: one read() of the `-i` input fails once (EIO, EAGAIN, ENOMEM, ESTALE,
/// EINTR) while the chunker holds a partial chunk. The property does not demand that such a
/// run succeeds; it demands that a run which *reports success* wrote the same bytes as every
/// other run — a transient fault must not move a chunk boundary silently.
fn input_fault_group(rep: &Report, idx: usize, seed: u64) -> Option<String> {
    use crate::refimpl::chunker::{Algo, Cfg};
    let mut rng = Rng::new(seed).fork(0x12f0 + idx as u64);
    let dir = scn::case_dir("C12", 80_000 + idx);
    let res = (|| -> Result<(), String> {
        let cfg = match idx % 3 {
            0 => Cfg::fixed(rng.urange(30_000, 70_000)),
            1 => Cfg { algo: Algo::RollSum, window: 64, min: 16_384, max: 262_144, bits: 15 },
            _ => Cfg { algo: Algo::BuzHash, window: 16, min: 8_192, max: 131_072, bits: 14 },
        };
        let comp = *rng.pick(&[crate::gen::Comp::None, crate::gen::Comp::Brotli(1), crate::gen::Comp::Zstd(1)]);
        // larger than the chunker's refill (1 MiB) and tokio's file buffer (2 MiB): several data reads
        let src_len = rng.urange(2_300_000, 4_400_000);
        let class = *rng.pick(&[crate::gen::SrcClass::Random, crate::gen::SrcClass::MixedEntropy, crate::gen::SrcClass::LowEntropy]);
        let source = crate::gen::gen_source(&mut rng, class, src_len);
        let mut spec = scn::CompressSpec::new(cfg, comp, 64);
        spec.buffered = *rng.pick(&[None, Some(1), Some(4)]);
        let (mut run, out_path) = scn::compress_run(&dir, "ref", &source, &spec);
        let src_path = dir.join("ref.src");
        run.watch = vec![src_path.clone()];
        run.log_reads = true;
        let o = proc::run(&run);
        rep.eval();
        if !o.exit.ok() {
            rep.inconclusive("input-fault reference run did not succeed");
            return Ok(());
        }
        let reference = std::fs::read(&out_path).map_err(|e| e.to_string())?;
        let reads = o.shim.iter().filter(|r| r.widx == 0 && (r.kind == proc::K_READ || r.kind == proc::K_PREAD) && r.ret > 0).count();
        if reads < 2 {
            rep.inconclusive("input was delivered in a single read");
            return Ok(());
        }
        rep.count("input_fault.data_reads_of_reference_runs", reads as u64);
        let errnos = [libc::EIO, libc::EAGAIN, libc::ENOMEM, libc::ESTALE, libc::EINTR];
        let mut ks: Vec<usize> = (1..reads.min(5)).collect();
        ks.push(reads); // the read that would report end of file
        for (j, k) in ks.into_iter().enumerate() {
            let e = errnos[(idx + j) % errnos.len()];
            spec.force = true;
            let (mut run, out_path) = scn::compress_run(&dir, "ref", &source, &spec);
            let _ = std::fs::remove_file(&out_path);
            run.watch = vec![src_path.clone()];
            run.read_fault = Some(format!("0,{},{}", k, e));
            let o = proc::run(&run);
            rep.eval();
            if o.exit == Exit::Timeout {
                rep.inconclusive("watchdog (input fault)");
                continue;
            }
            if !o.shim.iter().any(|r| r.kind == proc::K_FAULT) {
                rep.count("input_fault.not_reached", 1);
                continue;
            }
            rep.count("input_fault.fired", 1);
            if !o.exit.ok() {
                rep.count("input_fault.runs_that_failed_loudly", 1);
                continue;
            }
            rep.count("input_fault.runs_that_succeeded", 1);
            let bytes = std::fs::read(&out_path).map_err(|e| e.to_string())?;
            if bytes != reference {
                return Err(format!(
                    "read #{} of the input failed once with errno {}: compress exited 0 but the archive differs from the fault-free run (lengths {} vs {}, first difference at byte {:?}; {})",
                    k, e, bytes.len(), reference.len(), first_diff(&reference, &bytes), spec.describe()
                ));
            }
        }
        // ... and the same for the CLI's temp file: one write() to it fails once (EIO, ENOSPC,
        // EDQUOT) — in particular the last one, whose error tokio reports only to whoever asks
        // next. The reference run's shim log says how many writes there are.
        let temp = scn::temp_path_of(&out_path);
        let (mut run, _) = scn::compress_run(&dir, "ref", &source, &spec);
        run.watch = vec![src_path.clone(), temp.clone()];
        let o = proc::run(&run);
        rep.eval();
        let twrites = o.shim.iter().filter(|r| r.widx == 1 && (r.kind == proc::K_WRITE || r.kind == proc::K_PWRITE) && r.ret > 0).count();
        if o.exit.ok() && twrites > 0 {
            rep.count("temp_fault.temp_writes_of_reference_runs", twrites as u64);
            let mut ks: Vec<usize> = vec![twrites - 1];
            if twrites >= 2 {
                ks.push(twrites - 2);
                ks.push(rng.usize_below(twrites - 1));
            }
            ks.sort();
            ks.dedup();
            for (j, k) in ks.into_iter().enumerate() {
                let e = [libc::EIO, libc::ENOSPC, libc::EDQUOT][(idx + j) % 3];
                let (mut run, out_path) = scn::compress_run(&dir, "ref", &source, &spec);
                let _ = std::fs::remove_file(&out_path);
                run.watch = vec![src_path.clone(), temp.clone()];
                run.fault = Some(format!("1,{},errno,{}", k, e));
                let o = proc::run(&run);
                rep.eval();
                if o.exit == Exit::Timeout {
                    rep.inconclusive("watchdog (temp-file fault)");
                    continue;
                }
                if !o.shim.iter().any(|r| r.kind == proc::K_FAULT) {
                    rep.count("temp_fault.not_reached", 1);
                    continue;
                }
                rep.count("temp_fault.fired", 1);
                if !o.exit.ok() {
                    rep.count("temp_fault.runs_that_failed_loudly", 1);
                    let _ = std::fs::remove_file(&temp);
                    continue;
                }
                rep.count("temp_fault.runs_that_succeeded", 1);
                let bytes = std::fs::read(&out_path).map_err(|e| e.to_string())?;
                if bytes != reference {
                    return Err(format!(
                        "write #{} of {} to the temp file failed once with errno {}: compress exited 0 but the archive differs from the fault-free run (lengths {} vs {}, first difference at byte {:?}; {})",
                        k, twrites, e, bytes.len(), reference.len(), first_diff(&reference, &bytes), spec.describe()
                    ));
                }
            }
        }
        rep.nontrivial(format!("inputfault:{}:{}", spec.describe(), idx));
        Ok(())
    })();
    scn::cleanup(&dir, res.is_err());
    res.err()
}

/// The machine must not matter either: the same compress pinned to one CPU (what a small
/// container or a single-core target looks like to the process: every "number of CPUs"
/// default becomes 1) and unpinned, with chunks of several MiB — large enough for any
/// per-chunk parallelism to kick in — must give the same bytes.
fn cpu_count_group(rep: &Report, idx: usize, seed: u64) -> Option<String> {
    use crate::refimpl::chunker::Cfg;
    let mut rng = Rng::new(seed).fork(0x12c0 + idx as u64);
    let dir = scn::case_dir("C12", 90_000 + idx);
    let res = (|| -> Result<(), String> {
        let n = rng.urange(4_300_000, 6_000_000);
        let comp = [crate::gen::Comp::Brotli(1), crate::gen::Comp::Zstd(1), crate::gen::Comp::Brotli(2)][idx % 3];
        let src_len = n * 2 + rng.urange(1, 500_000);
        let source = crate::gen::gen_source(&mut rng, crate::gen::SrcClass::LowEntropy, src_len);
        let spec = scn::CompressSpec::new(Cfg::fixed(n), comp, 64);
        let mut archives: Vec<(String, Vec<u8>)> = Vec::new();
        for (name, one_cpu, workers) in [("unpinned", None, None), ("pinned to one CPU", Some(idx), None), ("two worker threads", None, Some(2usize))] {
            let (mut run, out_path) = scn::compress_run(&dir, "c", &source, &spec);
            let _ = std::fs::remove_file(&out_path);
            run.use_shim = false;
            run.one_cpu = one_cpu;
            run.workers = workers;
            run.timeout = std::time::Duration::from_secs(300);
            run.rlimit_cpu_s = Some(300);
            let o = proc::run(&run);
            rep.eval();
            if !o.exit.ok() {
                rep.inconclusive("cpu-count group: compress did not succeed");
                return Ok(());
            }
            archives.push((name.to_string(), std::fs::read(&out_path).map_err(|e| e.to_string())?));
        }
        for a in &archives[1..] {
            if a.1 != archives[0].1 {
                return Err(format!("{} with chunks of {} bytes: the archive written {} differs from the one written {} (lengths {} vs {}, first difference at byte {:?})", comp.describe(), n, a.0, archives[0].0, a.1.len(), archives[0].1.len(), first_diff(&archives[0].1, &a.1)));
            }
        }
        rep.count("cpu_count_groups_judged", 1);
        rep.nontrivial(format!("cpus:{}:{}#{}", comp.describe(), n, idx));
        Ok(())
    })();
    scn::cleanup(&dir, res.is_err());
    res.err()
}

pub fn run(tier: Tier, seed: u64) -> i32 {
    let rep = Report::new("C12", "exploration", tier, seed);
    let groups = tier.pick(56, 420);
    let nlarge = tier.pick(3, 20);
    let reps = tier.pick(8, 30);
    let total = groups + nlarge;
    let results = par_map(total, crate::util::ncpu(), |i| {
        let mut rng = Rng::new(seed).fork(0x1200 + i as u64);
        let mut case = ccommon::gen_case(&mut rng, i >= groups, true);
        // Metadata maps (several entries: their order in the dictionary must not depend on
        // anything but the keys).
        super::c11::gen_metadata(&mut rng, &mut case);
        // a refused compress (C11's unreadable metadata file) writes nothing to compare
        case.spec.unreadable_metadata = None;
        if i % 3 == 0 {
            for k in 0..4 {
                case.spec.metadata_values.retain(|e| e.0 != format!("det{}", k));
                case.spec.metadata_values.push((format!("det{}", k), format!("value {}", k)));
            }
        }
        // Determinism needs something to reorder: prefer multi-chunk sources.
        if i < groups && case.src_len < 2000 && rng.chance(3, 4) {
            case.src_len = rng.urange(2000, 60_000);
            case.len_class = "random".into();
        }
        let r = group(&rep, i, &case, if i >= groups { reps.min(6) } else { reps }, seed ^ 0xc12, true);
        (i, case, r)
    });
    {
        let nm = tier.pick(4, 32);
        // few at a time: every encoder of a level-9 run holds several hundred MiB
        let out = par_map(nm, 4, |i| (i, memory_pressure_group(&rep, i, seed)));
        for (i, r) in out {
            if let Some(why) = r {
                rep.violation("c12/memory-pressure/archives differ", json!({"why": why}), json!({"engine": "memory", "idx": i, "seed": seed}));
            }
        }
    }
    {
        let nc = tier.pick(3, 18);
        let out = par_map(nc, 3, |i| (i, cpu_count_group(&rep, i, seed)));
        for (i, r) in out {
            if let Some(why) = r {
                rep.violation("c12/cpu-count/archives differ", json!({"why": why}), json!({"engine": "cpus", "idx": i, "seed": seed}));
            }
        }
    }
    {
        let nf = tier.pick(6, 60);
        let out = par_map(nf, crate::util::ncpu(), |i| (i, input_fault_group(&rep, i, seed)));
        for (i, r) in out {
            if let Some(why) = r {
                rep.violation("c12/input-fault/archives differ", json!({"why": why}), json!({"engine": "inputfault", "idx": i, "seed": seed}));
            }
        }
        if rep.counter("input_fault.fired") == 0 {
            rep.broken("no input read fault fired".into());
        }
    }
    for (i, case, r) in results {
        for fp in &r.fingerprints {
            rep.seen("completion_order_fingerprints", format!("{}:{}", i, fp));
        }
        if r.fingerprints.len() >= 2 {
            rep.nontrivial(format!("{}#{}", case.key(), i));
            rep.count("groups_with_distinct_completion_orders", 1);
        } else {
            rep.count("groups_with_single_completion_order", 1);
        }
        rep.sample_if(i % 11 == 0, || {
            json!({"case": case.to_json(), "runs": r.runs, "distinct_completion_orders": r.fingerprints.len(),
                   "variants": r.variants.iter().take(4).cloned().collect::<Vec<_>>()})
        });
        if let Some(why) = r.violation {
            rep.violation(
                &format!("c12/{}/archives differ", case.writer.name()),
                json!({"why": why, "case": case.to_json(), "variants": r.variants, "work_dir": format!("/verif/.work/C12/c{}", i)}),
                json!({"engine": "group", "case": case.to_json(), "reps": reps, "seed": seed ^ 0xc12, "idx": i}),
            );
        }
    }
    if tier == Tier::Thorough {
        // Library writer under Miri: 16 scheduler seeds must give one archive.
        let oks = crate::miri::run_slices(&rep, "compress", 16, 0, "-Zmiri-disable-isolation");
        let digests: std::collections::BTreeSet<String> = oks.iter().filter_map(|l| l.split("archive=").nth(1).map(|x| x.to_string())).collect();
        rep.count("miri.compress.distinct_archives", digests.len() as u64);
        if digests.len() > 1 {
            rep.violation(
                "c12/miri/library writer gives different archives under different Miri schedules",
                json!({"digests": digests}),
                json!({"engine": "miri", "what": "compress"}),
            );
        }
    }
    if rep.counter("groups_with_distinct_completion_orders") == 0 {
        rep.broken("no group observed two different completion orders: injection ineffective".into());
    }
    rep.finish(
        "each group = one (source, options, writer) compressed once without and R times with perturbation (buffered-chunks in {1,2,3,8,64,default}, TOKIO_WORKER_THREADS in {1,2,16,default}, file vs stdin pipe in random pieces, seeded delays in hash/compress workers, on temp-file writes and input reads); all archives of a group must be byte-identical; input-fault groups: one read() of a multi-MiB -i input fails once (EIO/EAGAIN/ENOMEM/ESTALE/EINTR) at each of the first data reads and at the EOF read, and one write() to the CLI's temp file fails once (last, last but one, a random one; EIO/ENOSPC/EDQUOT) - the run may fail, exit 0 must mean the fault-free bytes; non-trivial = groups in which the hook log showed >= 2 distinct worker completion orders",
        &[
            "schedules are sampled by delay injection at the real hand-off points, not enumerated",
            "CLI file and CLI stdin input are the same writer with different input delivery and must agree; the library writer is compared with itself",
        ],
        json!({}),
        false,
    )
}

pub fn replay(v: &Value) -> i32 {
    let r = &v["replay"];
    if r["engine"] == "memory" {
        let rep = Report::new("C12", "exploration", Tier::Quick, r["seed"].as_u64().unwrap_or(1));
        return match memory_pressure_group(&rep, r["idx"].as_u64().unwrap_or(0) as usize, r["seed"].as_u64().unwrap_or(1)) {
            Some(why) => {
                println!("replay: VIOLATED: {}", why);
                println!("VIOLATION property=C12 replay=(replayed)");
                1
            }
            None => {
                println!("replay: property held on this case");
                0
            }
        };
    }
    if r["engine"] == "cpus" {
        let rep = Report::new("C12", "exploration", Tier::Quick, r["seed"].as_u64().unwrap_or(1));
        return match cpu_count_group(&rep, r["idx"].as_u64().unwrap_or(0) as usize, r["seed"].as_u64().unwrap_or(1)) {
            Some(why) => {
                println!("replay: VIOLATED: {}", why);
                println!("VIOLATION property=C12 replay=(replayed)");
                1
            }
            None => {
                println!("replay: property held on this case");
                0
            }
        };
    }
    if r["engine"] == "inputfault" {
        let rep = Report::new("C12", "exploration", Tier::Quick, r["seed"].as_u64().unwrap_or(1));
        return match input_fault_group(&rep, r["idx"].as_u64().unwrap_or(0) as usize, r["seed"].as_u64().unwrap_or(1)) {
            Some(why) => {
                println!("replay: VIOLATED: {}", why);
                println!("VIOLATION property=C12 replay=(replayed)");
                1
            }
            None => {
                println!("replay: property held on this case");
                0
            }
        };
    }
    let case = CCase::from_json(&r["case"]);
    let mut rep = Report::new("C12", "exploration", Tier::Quick, 0);
    rep.replay_mode = true;
    let g = group(
        &rep,
        r["idx"].as_u64().unwrap_or(0) as usize,
        &case,
        r["reps"].as_u64().unwrap_or(8) as usize,
        r["seed"].as_u64().unwrap_or(0),
        false,
    );
    match g.violation {
        Some(w) => {
            println!("replay: VIOLATED: {}", w);
            println!("VIOLATION property=C12 replay=(replayed)");
            1
        }
        None => {
            println!("replay: property held ({} runs, {} completion orders)", g.runs, g.fingerprints.len());
            0
        }
    }
}
