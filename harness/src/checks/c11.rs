//! C11 — written archives conform to the documented format and report settings verbatim.
//!
//! Monitor: raw bytes of archives produced by the real CLI (file and stdin input)
//! and by the library writer, under schedule injection. Oracle: R2's strict decoder
//! (written from header.rs' table and the .proto), R1 for descriptor order, and the
//! requested options; plus `bita info` and the reader accessors.
use super::ccommon::{self, CCase, Injection, Writer};
use crate::evidence::{Report, Tier};
use crate::inst::{FragPlan, FragSource, PendPlan};
use crate::proc::{self, p, s, Run};
use crate::refimpl::chunker as r1;
use crate::refimpl::codec;
use crate::scn;
use crate::util::{hex, par_map, Rng};
use serde_json::{json, Value};
use std::collections::HashMap;
use std::sync::Arc;

pub fn parse_info(text: &str) -> HashMap<String, String> {
    let mut m = HashMap::new();
    for l in text.lines() {
        if let Some((k, v)) = l.trim().split_once(':') {
            m.entry(k.trim().to_string()).or_insert_with(|| v.trim().to_string());
        }
    }
    m
}

/// "512 bytes" | "1.5 KiB (1536 bytes)" -> 512 / 1536
pub fn human_bytes(v: &str) -> Option<u64> {
    let v = v.trim();
    if let Some(i) = v.find('(') {
        let inner = &v[i + 1..];
        let n = inner.split(' ').next()?;
        n.parse().ok()
    } else {
        v.split(' ').next()?.parse().ok()
    }
}

/// Compare `bita info` output with what was requested. Err(..) = mismatch;
/// Ok(false) = output not parseable (treated as inconclusive by callers).
pub fn check_info(text: &str, source: &[u8], case: &CCase, parsed: &codec::Parsed) -> Result<bool, String> {
    let m = parse_info(text);
    let spec = &case.spec;
    let get = |k: &str| m.get(k).cloned();
    let mut checked = 0;
    if let Some(v) = get("Chunk hash length") {
        let n: u64 = v.split(' ').next().unwrap_or("").parse().map_err(|_| "hash length unparseable")?;
        if n != spec.hash_len as u64 {
            return Err(format!("info reports hash length {} (requested {})", n, spec.hash_len));
        }
        checked += 1;
    }
    if let Some(v) = get("Chunk compression") {
        let want = match spec.comp {
            crate::gen::Comp::None => "None".to_string(),
            crate::gen::Comp::Brotli(l) => format!("Brotli (level {})", l),
            crate::gen::Comp::Zstd(l) => format!("zstd (level {})", l),
            crate::gen::Comp::Lzma(l) => format!("LZMA (level {})", l),
        };
        if v != want {
            return Err(format!("info reports compression '{}' (requested '{}')", v, want));
        }
        checked += 1;
    }
    if let Some(v) = get("Chunking algorithm") {
        let want = match spec.cfg.algo {
            r1::Algo::Fixed => "Fixed Size",
            r1::Algo::RollSum => "RollSum",
            r1::Algo::BuzHash => "BuzHash",
        };
        if v != want {
            return Err(format!("info reports algorithm '{}' (requested '{}')", v, want));
        }
        checked += 1;
    }
    let num = |k: &str| get(k).and_then(|v| human_bytes(&v));
    if spec.cfg.algo == r1::Algo::Fixed {
        if let Some(n) = num("Fixed chunk size") {
            if n != spec.cfg.max as u64 {
                return Err(format!("info reports fixed size {} (requested {})", n, spec.cfg.max));
            }
            checked += 1;
        }
    } else {
        for (k, want) in [
            ("Rolling hash window size", spec.cfg.window as u64),
            ("Chunk minimum size", spec.cfg.min as u64),
            ("Chunk maximum size", spec.cfg.max as u64),
        ] {
            if let Some(n) = num(k) {
                if n != want {
                    return Err(format!("info reports {} = {} (requested {})", k, n, want));
                }
                checked += 1;
            }
        }
        if let Some(v) = get("Chunk average target size") {
            if let Some(i) = v.find("mask: 0b") {
                let bits = v[i + 8..].chars().take_while(|c| *c == '1').count() as u32;
                if bits != spec.cfg.bits {
                    return Err(format!("info reports {} filter bits (requested {})", bits, spec.cfg.bits));
                }
                checked += 1;
            }
        }
    }
    if let Some(v) = get("Source checksum") {
        if v != hex(&crate::util::b2(source)) {
            return Err("info reports a source checksum that is not the source's Blake2b-512".into());
        }
        checked += 1;
    }
    if let Some(n) = num("Source size") {
        if n != source.len() as u64 {
            return Err(format!("info reports source size {} (true {})", n, source.len()));
        }
        checked += 1;
    }
    if let Some(v) = get("Header checksum") {
        if v != hex(&parsed.header_checksum) {
            return Err("info reports a header checksum different from the one in the file".into());
        }
        checked += 1;
    }
    if let Some(v) = get("Chunks in source") {
        // "N (unique: M)"
        let n: Option<u64> = v.split(' ').next().and_then(|x| x.parse().ok());
        let u: Option<u64> = v.split("unique: ").nth(1).and_then(|x| x.trim_end_matches(')').parse().ok());
        if let (Some(n), Some(u)) = (n, u) {
            if n != parsed.dict.rebuild_order.len() as u64 || u != parsed.dict.descs.len() as u64 {
                return Err(format!("info reports {} chunks / {} unique, dictionary has {} / {}", n, u, parsed.dict.rebuild_order.len(), parsed.dict.descs.len()));
            }
            checked += 1;
        }
    }
    if let Some(v) = get("Metadata") {
        let want = ccommon::expected_metadata(spec);
        let want_s = if want.is_empty() {
            "None".to_string()
        } else {
            want.iter().map(|(k, v)| format!("{}({})", k, v.len())).collect::<Vec<_>>().join(", ")
        };
        // Keys containing ':' or ',' make the line ambiguous; compare only plain keys.
        if want.iter().all(|(k, _)| !k.contains([':', ',', '(', ')', '\n'])) {
            if v != want_s {
                return Err(format!("info reports metadata '{}' (requested '{}')", v, want_s));
            }
            checked += 1;
        }
    }
    Ok(checked >= 5)
}

pub fn gen_metadata(rng: &mut Rng, case: &mut CCase) {
    if rng.chance(1, 2) {
        return;
    }
    let keys = ["k", "key two", "ключ", "a.b-c_d", "", "x=y", "0"];
    let n = rng.urange(1, 4);
    for _ in 0..n {
        let k = rng.pick(&keys).to_string();
        if rng.chance(1, 2) {
            let v = match rng.below(4) {
                0 => String::new(),
                1 => "value with spaces".to_string(),
                2 => "ünïcode ✓".to_string(),
                _ => format!("v{}", rng.below(1000)),
            };
            case.spec.metadata_values.retain(|e| e.0 != k);
            case.spec.metadata_files.retain(|e| e.0 != k);
            case.spec.metadata_values.push((k, v));
        } else {
            let l = match rng.below(4) {
                0 => 0,
                1 => 1,
                2 => rng.urange(2, 300),
                _ => rng.urange(300, 5000),
            };
            let v = rng.bytes(l);
            case.spec.metadata_files.retain(|e| e.0 != k);
            case.spec.metadata_values.retain(|e| e.0 != k);
            case.spec.metadata_files.push((k, v));
        }
    }
    // One CLI case in twelve also names a metadata file that cannot be read.
    if case.writer != Writer::Lib && rng.chance(1, 6) {
        case.spec.unreadable_metadata = Some((format!("unreadable{}", rng.below(10)), rng.below(2) as u8));
    }
    // CLI: an empty key or a key starting with '-' cannot be passed reliably.
    if case.writer != Writer::Lib {
        case.spec.metadata_values.retain(|e| !e.0.starts_with('-') && !e.1.starts_with('-'));
    }
}

pub fn cap_injection(inj: &mut Injection, nchunks: usize) {
    let n = nchunks.max(1) as u64;
    inj.hook_delay_us = inj.hook_delay_us.min(600_000 / n);
    inj.temp_write_delay_us = inj.temp_write_delay_us.min(400_000 / n);
    inj.input_read_delay_us = inj.input_read_delay_us.min(200_000 / (n / 4).max(1));
}

/// One C11 case; returns a violation description if any.
pub fn one_case(rep: &Report, idx: usize, case: &CCase, inj: &Injection, keep: bool) -> Option<String> {
    let dir = scn::case_dir("C11", idx);
    let source = case.source();
    let res = (|| -> Result<(), String> {
        if ccommon::truncated_collision(&source, &case.spec.cfg, case.spec.hash_len) {
            rep.inconclusive("truncated-hash collision in generated source");
            return Ok(());
        }
        let obs = ccommon::run_case(&dir, "a", &source, case, inj);
        rep.eval();
        if obs.exit == proc::Exit::Timeout || obs.exit.hit_cpu_limit() {
            rep.inconclusive("watchdog / CPU budget of the case exhausted");
            return Ok(());
        }
        if let Some((k, kind)) = &case.spec.unreadable_metadata {
            // Nothing could be recorded for this key: a run that claims success has not
            // recorded the requested metadata, whatever else the archive holds.
            if obs.exit.ok() {
                return Err(format!("compress exited 0 although the file for requested metadata key {:?} {}: the requested metadata is not recorded", k, if *kind == 1 { "is a directory" } else { "does not exist" }));
            }
            rep.count("unreadable_metadata_file_refused", 1);
            rep.nontrivial(format!("unreadable-metadata:{}:{}", kind, case.spec.describe()));
            return Ok(());
        }
        if !obs.exit.ok() {
            rep.inconclusive("compress exited non-zero (judged by C01)");
            rep.count("compress_nonzero_exit", 1);
            return Ok(());
        }
        let archive = obs.archive.ok_or("compress exited 0 but left no archive")?;
        rep.count("archive_bytes_decoded", archive.len() as u64);
        if let Some(fp) = &obs.fingerprint {
            rep.seen("completion_orders", format!("{}:{}", idx, fp));
        }
        rep.count("hook_events", obs.hook_events as u64);
        if obs.max_overlap > 1 {
            rep.count("runs_with_overlapping_workers", 1);
        }
        if let Some(h) = obs.handoff_ok {
            rep.count(if h { "handoff_ordered" } else { "handoff_out_of_order_or_short" }, 1);
        }
        let parsed = ccommon::conformance(&archive, &source, &case.spec)?;
        rep.count("descriptors_checked", parsed.dict.descs.len() as u64);
        if !parsed.dict.metadata.is_empty() {
            rep.count("archives_with_metadata", 1);
        }
        // bita info on the archive.
        let apath = dir.join("a.cba");
        let o = proc::run(&Run::new(&dir, "info", vec![s("info"), p(&apath)]));
        if !o.exit.ok() {
            return Err(format!("bita info fails on a conforming archive: {} {}", o.exit.describe(), o.tail()));
        }
        match check_info(&String::from_utf8_lossy(&o.stdout), &source, case, &parsed)? {
            true => rep.count("info_outputs_checked", 1),
            false => rep.inconclusive("bita info output not parseable"),
        }
        // Metadata value round trip through `info --metadata-key`.
        for (k, v) in ccommon::expected_metadata(&case.spec).iter().take(2) {
            if k.is_empty() || k.starts_with('-') {
                continue;
            }
            let o = proc::run(&Run::new(&dir, "meta", vec![s("info"), s("--metadata-key"), k.clone(), p(&apath)]));
            if !o.exit.ok() || o.stdout != *v {
                return Err(format!("info --metadata-key {:?} returns {} bytes, stored {}", k, o.stdout.len(), v.len()));
            }
            rep.count("metadata_values_read_back", 1);
        }
        // Reader accessors (library).
        let rt = crate::exec::rt_current();
        let acc = crate::util::catch(|| rt.block_on(async {
            let reader = bitar::archive_reader::IoReader::new(FragSource::new(
                Arc::new(archive.clone()),
                FragPlan::Random { seed: idx as u64 + 1, max: 97 },
                PendPlan::Every(3),
            ));
            bitar::Archive::try_init(reader).await.map(|a| crate::lib_drv::accessors(&a)).map_err(|e| format!("{:?}", e))
        }))
        .and_then(|x| x);
        let acc = acc.map_err(|e| format!("library reader rejects a conforming archive: {}", e))?;
        let want_cfg = case.spec.cfg.describe();
        if acc.chunker != want_cfg {
            return Err(format!("accessor chunker_config {} != requested {}", acc.chunker, want_cfg));
        }
        if acc.hash_length != case.spec.hash_len
            || acc.total_source_size != source.len() as u64
            || acc.source_checksum != crate::util::b2(&source).to_vec()
            || acc.header_checksum != parsed.header_checksum.to_vec()
            || acc.header_size != parsed.header_len
            || acc.chunk_data_offset != parsed.chunk_data_offset
            || acc.total_chunks != parsed.dict.rebuild_order.len()
            || acc.unique_chunks != parsed.dict.descs.len()
        {
            return Err("reader accessors disagree with the independently decoded header".into());
        }
        let mut m = acc.metadata.clone();
        m.sort();
        if m != ccommon::expected_metadata(&case.spec) {
            return Err("reader metadata accessors differ from the requested metadata".into());
        }
        rep.count("accessor_sets_checked", 1);
        if parsed.dict.descs.len() >= 2 || source.len() <= 1 {
            rep.nontrivial(case.key());
        }
        rep.sample_if(idx % 37 == 0, || {
            json!({"case": case.to_json(), "archive_len": archive.len(), "descriptors": parsed.dict.descs.len(),
                   "chunks": parsed.dict.rebuild_order.len(), "completion_fingerprint": obs.fingerprint,
                   "injection": inj.to_json()})
        });
        Ok(())
    })();
    scn::cleanup(&dir, keep && res.is_err());
    res.err()
}

/// Write faults during a CLI compress: one write() to the temp file or to the archive itself
/// fails once (the last one, the last but one, a random one; several errno classes). The
/// run may fail. A run that reports success claims to have written an archive, and that
/// archive must conform like any other ("every archive written by compress ...").
fn write_fault_case(rep: &Report, idx: usize, seed: u64) -> Option<String> {
    use crate::refimpl::chunker::{Algo, Cfg};
    let mut rng = Rng::new(seed).fork(0x11f0 + idx as u64);
    let dir = scn::case_dir("C11", 60_000 + idx);
    let res = (|| -> Result<(), String> {
        let cfg = match idx % 3 {
            0 => Cfg::fixed(rng.urange(500, 5000)),
            1 => Cfg { algo: Algo::RollSum, window: 16, min: 256, max: 8192, bits: 10 },
            _ => Cfg { algo: Algo::BuzHash, window: 16, min: 512, max: 8192, bits: 10 },
        };
        let comp = *rng.pick(&[crate::gen::Comp::None, crate::gen::Comp::Brotli(2), crate::gen::Comp::Zstd(2)]);
        let src_len = rng.urange(20_000, 120_000);
        let class = *rng.pick(&[crate::gen::SrcClass::Random, crate::gen::SrcClass::LowEntropy, crate::gen::SrcClass::MixedEntropy]);
        let source = crate::gen::gen_source(&mut rng, class, src_len);
        let mut spec = scn::CompressSpec::new(cfg, comp, *rng.pick(&[8usize, 32, 64]));
        spec.buffered = *rng.pick(&[None, Some(1), Some(3)]);
        if ccommon::truncated_collision(&source, &spec.cfg, spec.hash_len) {
            rep.inconclusive("truncated-hash collision in generated source");
            return Ok(());
        }
        let (mut run, out_path) = scn::compress_run(&dir, "w", &source, &spec);
        let temp = scn::temp_path_of(&out_path);
        run.watch = vec![temp.clone(), out_path.clone()];
        let o = proc::run(&run);
        rep.eval();
        if !o.exit.ok() {
            rep.inconclusive("write-fault reference run did not succeed");
            return Ok(());
        }
        let count = |w: i32| o.shim.iter().filter(|r| r.widx == w && (r.kind == proc::K_WRITE || r.kind == proc::K_PWRITE || r.kind == proc::K_COPY) && r.ret > 0).count();
        let (tw, ow) = (count(0), o.shim.iter().filter(|r| r.widx == 1 && (r.kind == proc::K_WRITE || r.kind == proc::K_PWRITE) && r.ret > 0).count());
        rep.count("write_fault.temp_writes_seen", tw as u64);
        rep.count("write_fault.archive_writes_seen", ow as u64);
        let mut jobs: Vec<(i32, usize)> = Vec::new();
        if tw > 0 {
            jobs.push((0, tw - 1));
            if tw > 1 {
                jobs.push((0, tw - 2));
                jobs.push((0, rng.usize_below(tw - 1)));
            }
        }
        if ow > 0 {
            jobs.push((1, ow - 1));
            jobs.push((1, 0));
        }
        spec.force = true;
        for (j, (w, k)) in jobs.into_iter().enumerate() {
            let e = [libc::EIO, libc::ENOSPC, libc::EDQUOT, libc::EPIPE, libc::EAGAIN][(idx + j) % 5];
            let _ = std::fs::remove_file(&out_path);
            let _ = std::fs::remove_file(&temp);
            let (mut run, _) = scn::compress_run(&dir, "w", &source, &spec);
            run.watch = vec![temp.clone(), out_path.clone()];
            run.fault = Some(format!("{},{},errno,{}", w, k, e));
            let o = proc::run(&run);
            rep.eval();
            if o.exit == proc::Exit::Timeout {
                rep.inconclusive("watchdog (write fault)");
                continue;
            }
            if !o.shim.iter().any(|r| r.kind == proc::K_FAULT) {
                rep.count("write_fault.not_reached", 1);
                continue;
            }
            rep.count("write_fault.fired", 1);
            if !o.exit.ok() {
                rep.count("write_fault.runs_that_failed_loudly", 1);
                continue;
            }
            rep.count("write_fault.runs_that_succeeded", 1);
            let bytes = std::fs::read(&out_path).map_err(|_| format!("compress exited 0 after write #{} to the {} failed with errno {}, but there is no archive", k, if w == 0 { "temp file" } else { "archive" }, e))?;
            ccommon::conformance(&bytes, &source, &spec).map_err(|why| {
                format!("write #{} to the {} failed once with errno {}: compress exited 0 but the archive does not conform: {}", k, if w == 0 { "temp file" } else { "archive" }, e, why)
            })?;
        }
        rep.nontrivial(format!("writefault:{}#{}", spec.describe(), idx));
        Ok(())
    })();
    scn::cleanup(&dir, res.is_err());
    res.err()
}

/// Chunks whose *stored* form is larger than what one write call to a file moves (2 MiB in
/// tokio): incompressible chunks of 2.2 - 3.5 MiB, raw or through a codec that gives up on
/// them, written by the CLI (file / stdin) — the archive must conform like any other.
fn big_stored_chunk_case(rep: &Report, idx: usize, seed: u64) -> Option<String> {
    use crate::refimpl::chunker::Cfg;
    let mut rng = Rng::new(seed).fork(0x11b0 + idx as u64);
    let dir = scn::case_dir("C11", 70_000 + idx);
    let res = (|| -> Result<(), String> {
        let n = rng.urange(2_200_000, 3_500_000);
        let cfg = Cfg::fixed(n);
        let comp = *rng.pick(&[crate::gen::Comp::None, crate::gen::Comp::Brotli(1), crate::gen::Comp::Zstd(1)]);
        let extra = rng.urange(1, 900_000);
        let source = rng.bytes(n * 2 + extra);
        let mut spec = scn::CompressSpec::new(cfg, comp, 64);
        if idx % 3 == 1 {
            spec.stdin = Some(rng.next_u64() | 1);
        }
        let (run, out_path) = scn::compress_run(&dir, "big", &source, &spec);
        let o = proc::run(&run);
        rep.eval();
        if o.exit == proc::Exit::Timeout {
            rep.inconclusive("watchdog (big stored chunk)");
            return Ok(());
        }
        if !o.exit.ok() {
            return Err(format!("compress of a valid input failed: {} {}", o.exit.describe(), o.tail()));
        }
        let bytes = std::fs::read(&out_path).map_err(|e| e.to_string())?;
        let parsed = ccommon::conformance(&bytes, &source, &spec)?;
        if parsed.dict.descs.iter().any(|d| d.archive_size > (2 << 20)) {
            rep.count("archives_with_a_stored_chunk_over_2MiB", 1);
            rep.nontrivial(format!("bigstored:{}#{}", spec.describe(), idx));
        }
        Ok(())
    })();
    scn::cleanup(&dir, res.is_err());
    res.err()
}

fn self_test(rep: &Report) {
    if let Err(e) = codec::self_test() {
        rep.broken(format!("R2 self-test: {}", e));
    }
    // The strict decoder must reject: archive one byte short, one byte long, a
    // descriptor out of order, and a wrong recorded size.
    let source: Vec<u8> = (0..40u8).collect();
    let cfg = r1::Cfg::fixed(16);
    let chunks = r1::chunk(&cfg, &source);
    let mut descs = Vec::new();
    let mut body = Vec::new();
    for &(o, l) in &chunks {
        descs.push(codec::Desc {
            checksum: crate::util::b2(&source[o..o + l])[..8].to_vec(),
            archive_size: l as u32,
            archive_offset: body.len() as u64,
            source_size: l as u32,
        });
        body.extend_from_slice(&source[o..o + l]);
    }
    let params = codec::Params { filter_bits: 0, min: 0, max: 16, window: 0, hash_len: 8, algo: 2 };
    let dict = codec::Dict {
        app_version: "t".into(),
        source_checksum: crate::util::b2(&source).to_vec(),
        source_total_size: 40,
        params: Some(params.clone()),
        compression: Some((0, 0)),
        rebuild_order: vec![0, 1, 2],
        descs,
        metadata: vec![],
        unknown_fields: 0,
    };
    let build = |d: &codec::Dict, body: &[u8]| {
        let mut a = codec::build_header(&codec::encode_dict(d, &codec::EncStyle::default()), false, None);
        a.extend_from_slice(body);
        a
    };
    let ex = codec::Expect { source: &source, chunks: &chunks, params, compression: (0, 0), metadata: vec![] };
    let good = build(&dict, &body);
    if let Err(e) = codec::strict_check(&good, &ex) {
        rep.broken(format!("strict decoder rejects a conforming archive: {}", e));
    }
    let mut bads: Vec<(&str, Vec<u8>)> = Vec::new();
    bads.push(("one byte short", good[..good.len() - 1].to_vec()));
    let mut long = good.clone();
    long.push(0);
    bads.push(("one byte long", long));
    let mut d2 = dict.clone();
    d2.descs.swap(0, 1);
    bads.push(("descriptor order", build(&d2, &body)));
    let mut d3 = dict.clone();
    d3.source_total_size = 41;
    bads.push(("wrong size", build(&d3, &body)));
    let mut d4 = dict.clone();
    d4.rebuild_order = vec![0, 1];
    bads.push(("dropped tail chunk", build(&d4, &body)));
    for (name, b) in bads {
        if codec::strict_check(&b, &ex).is_ok() {
            rep.broken(format!("strict decoder accepted synthetic bad archive: {}", name));
        }
    }
}

pub fn run(tier: Tier, seed: u64) -> i32 {
    let rep = Report::new("C11", "exploration", tier, seed);
    self_test(&rep);
    let n = tier.pick(900, 9000);
    let nlarge = tier.pick(6, 60);
    let total = n + nlarge;
    let viols = par_map(total, crate::util::ncpu(), |i| {
        let mut rng = Rng::new(seed).fork(0x1100 + i as u64);
        let mut case = ccommon::gen_case(&mut rng, i >= n, tier == Tier::Quick);
        gen_metadata(&mut rng, &mut case);
        let mut inj = if rng.chance(1, 6) { Injection::none() } else { Injection::gen(&mut rng) };
        let nchunks = if case.src_len == 0 { 0 } else { r1::chunk(&case.spec.cfg, &case.source()).len() };
        cap_injection(&mut inj, nchunks);
        let v = one_case(&rep, i, &case, &inj, true);
        (i, case, inj, v)
    });
    for (i, case, inj, v) in viols {
        if let Some(why) = v {
            let class = why.split([':', '(']).next().unwrap_or("").chars().take(48).collect::<String>();
            rep.violation(
                &format!("c11/{}/{}", case.writer.name(), class),
                json!({"why": why, "case": case.to_json(), "work_dir": format!("/verif/.work/C11/c{}", i)}),
                json!({"engine": "compress", "case": case.to_json(), "inj": inj.to_json(), "idx": i}),
            );
        }
    }
    {
        let nf = tier.pick(12, 150);
        let out = par_map(nf, crate::util::ncpu(), |i| (i, write_fault_case(&rep, i, seed)));
        for (i, r) in out {
            if let Some(why) = r {
                rep.violation("c11/write-fault/archive does not conform", json!({"why": why}), json!({"engine": "writefault", "idx": i, "seed": seed}));
            }
        }
        if rep.counter("write_fault.fired") == 0 {
            rep.broken("no write fault fired during compress".into());
        }
    }
    {
        let nb = tier.pick(4, 30);
        let out = par_map(nb, 4, |i| (i, big_stored_chunk_case(&rep, i, seed)));
        for (i, r) in out {
            if let Some(why) = r {
                rep.violation("c11/big-stored-chunk/archive does not conform", json!({"why": why}), json!({"engine": "bigstored", "idx": i, "seed": seed}));
            }
        }
        if rep.counter("archives_with_a_stored_chunk_over_2MiB") == 0 {
            rep.broken("no archive with a stored chunk over 2 MiB was judged".into());
        }
    }
    if rep.counter("descriptors_checked") == 0 || rep.counter("info_outputs_checked") == 0 {
        rep.broken("no archive was decoded / no info output checked".into());
    }
    rep.finish(
        "each case = (source class, length class, chunker config, compression, hash length, buffered-chunks, writer in {CLI file, CLI stdin, library}, metadata map) compressed once under seeded delay injection (worker hooks, temp-file writes, input reads, thread count); the archive bytes are judged by R2's strict decoder + R1 descriptor order + requested options, `bita info` and the reader accessors; write-fault cases: one write() to the temp file or the archive fails once (last / last but one / random / first; EIO, ENOSPC, EDQUOT, EPIPE, EAGAIN) - exit 0 must still mean a conforming archive; non-trivial = distinct (source class, length class, writer, algorithm, codec, hash length) with >= 2 descriptors or an empty/1-byte source",
        &[
            "R2 (independent codec) and R1 (reference chunker) are the trusted base",
            "payload codecs (brotli, zstd, lzma crates) are used directly and trusted",
            "sources with a truncated-hash collision between distinct chunks are dropped (counted inconclusive)",
        ],
        json!({}),
        false,
    )
}

pub fn replay(v: &Value) -> i32 {
    let r = &v["replay"];
    if r["engine"] == "bigstored" {
        let rep = Report::new("C11", "exploration", Tier::Quick, r["seed"].as_u64().unwrap_or(1));
        return match big_stored_chunk_case(&rep, r["idx"].as_u64().unwrap_or(0) as usize, r["seed"].as_u64().unwrap_or(1)) {
            Some(why) => {
                println!("replay: VIOLATED: {}", why);
                println!("VIOLATION property=C11 replay=(replayed)");
                1
            }
            None => {
                println!("replay: property held on this case");
                0
            }
        };
    }
    if r["engine"] == "writefault" {
        let rep = Report::new("C11", "exploration", Tier::Quick, r["seed"].as_u64().unwrap_or(1));
        return match write_fault_case(&rep, r["idx"].as_u64().unwrap_or(0) as usize, r["seed"].as_u64().unwrap_or(1)) {
            Some(why) => {
                println!("replay: VIOLATED: {}", why);
                println!("VIOLATION property=C11 replay=(replayed)");
                1
            }
            None => {
                println!("replay: property held on this case");
                0
            }
        };
    }
    let case = CCase::from_json(&r["case"]);
    let inj = Injection::from_json(&r["inj"]);
    let mut rep = Report::new("C11", "exploration", Tier::Quick, 0);
    rep.replay_mode = true;
    let mut bad = 0;
    for k in 0..10 {
        if let Some(why) = one_case(&rep, 900_000 + k, &case, &inj, false) {
            println!("replay run {}: VIOLATED: {}", k, why);
            bad += 1;
        }
    }
    if bad > 0 {
        println!("VIOLATION property=C11 replay=(replayed {} of 10 runs)", bad);
        1
    } else {
        println!("replay: property held on 10 runs of this case");
        0
    }
}
