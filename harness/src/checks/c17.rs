//! C17 — any archive conforming to the documented format is cloned correctly.
//!
//! Workload: sources encoded by the independent encoder R2 in many conforming ways
//! (either magic, chunk data offset = header end + slack, stored chunks reversed /
//! shuffled / padded, unknown protobuf fields at every level, packed or unpacked rebuild
//! order, explicit default values, reversed field order, raw vs compressed per chunk,
//! hash lengths 4..64, zero chunks, all chunker families, metadata, trailing bytes).
//! Monitor: exit status and output of the real `bita info` / `bita clone` (local and
//! HTTP), library accessors. Oracle: output == the encoder's source; reported values ==
//! the encoder's inputs.
use super::ccommon::{CCase, Writer};
use crate::evidence::{Report, Tier};
use crate::gen::{self, Comp};
use crate::httpd::{self, Server};
use crate::inst::{FragPlan, PendPlan};
use crate::proc::{self, p, s, Exit, Run};
use crate::refimpl::chunker::{self as r1, Algo, Cfg};
use crate::refimpl::codec::{self, EncStyle};
use crate::refimpl::enc::{self, ArchiveSpec, StoredOrder};
use crate::scn::{self, CloneSpec, CompressSpec};
use crate::util::{b2, first_diff, par_map, Rng};
use serde_json::{json, Value};
use std::sync::Arc;

fn comp_enum(c: (u32, u32)) -> Comp {
    match c.0 {
        1 => Comp::Lzma(c.1),
        2 => Comp::Zstd(c.1),
        3 => Comp::Brotli(c.1),
        _ => Comp::None,
    }
}

struct Gen {
    source: Vec<u8>,
    spec: ArchiveSpec,
    src_desc: String,
}

fn gen_case(rng: &mut Rng) -> Gen {
    let cfg = match rng.below(6) {
        0 => Cfg::fixed(rng.urange(1, 2000)),
        1 | 2 => gen::gen_small_rolling(rng, Algo::RollSum),
        3 | 4 => gen::gen_small_rolling(rng, Algo::BuzHash),
        _ => Cfg { algo: Algo::RollSum, window: 64, min: 16 * 1024, max: 16 << 20, bits: 15 },
    };
    let class = *rng.pick(&gen::SRC_CLASSES);
    let len = match rng.below(10) {
        0 => 0,
        1 => 1,
        2 => rng.urange(1, cfg.window.max(2)),
        _ => rng.urange(2, 30_000),
    };
    let source = gen::gen_source(rng, class, len);
    let comp = match rng.below(5) {
        0 => (0u32, 0u32),
        1 | 2 => (3, rng.range(1, 9) as u32),
        3 => (2, rng.range(1, 15) as u32),
        _ => (1, rng.range(0, 6) as u32),
    };
    let hash_len = *rng.pick(&[4usize, 5, 7, 8, 16, 31, 32, 63, 64]);
    let mut spec = ArchiveSpec::plain(cfg, hash_len, comp);
    spec.style = EncStyle {
        legacy_magic: rng.chance(1, 3),
        unpacked_order: rng.chance(1, 3),
        unknown_fields: rng.chance(1, 2),
        explicit_defaults: rng.chance(1, 4),
        reverse_fields: rng.chance(1, 4),
        seed: rng.next_u64(),
    };
    spec.slack = *rng.pick(&[0usize, 0, 1, 7, 4096, 65_537]);
    if rng.chance(1, 6) {
        spec.slack = rng.urange(0, 3000);
    }
    spec.order = *rng.pick(&[StoredOrder::AsDescriptors, StoredOrder::Reversed, StoredOrder::Shuffled]);
    spec.max_pad = *rng.pick(&[0usize, 0, 1, 13, 500]);
    spec.trailing = *rng.pick(&[0usize, 0, 0, 1, 100]);
    spec.layout_seed = rng.next_u64();
    spec.raw_share = *rng.pick(&[0u64, 0, 2, 8]);
    spec.keep_bigger_share = *rng.pick(&[0u64, 4, 8]);
    // placed after every other draw so that the remaining parameters of a case stay as
    // they were before this option existed
    let no_dedup_draw = rng.clone().fork(0xd3d0).chance(1, 5);
    spec.no_dedup = no_dedup_draw;
    if rng.chance(1, 3) {
        let n = rng.urange(1, 4);
        for i in 0..n {
            let l = rng.urange(0, 300);
            spec.metadata.push((format!("key{}", i), rng.bytes(l)));
        }
    }
    spec.app_version = rng.pick(&["0.13.0", "0.1.1", "", "other-tool 9.9"]).to_string();
    Gen { source, spec, src_desc: format!("{:?}/{}", class, len) }
}

fn one_case(rep: &Report, idx: usize, seed: u64) -> Option<(String, String)> {
    let mut rng = Rng::new(seed).fork(0x1700 + idx as u64);
    let g = gen_case(&mut rng);
    let desc = format!("{} :: {}", g.src_desc, g.spec.describe());
    let dir = scn::case_dir("C17", idx);
    let res = (|| -> Result<(), String> {
        if super::ccommon::truncated_collision(&g.source, &g.spec.cfg, g.spec.hash_len) {
            rep.inconclusive("truncated-hash collision in generated source");
            return Ok(());
        }
        let e = match enc::encode_archive(&g.source, &g.spec) {
            Ok(e) => e,
            Err(err) => {
                rep.inconclusive(&format!("encoder: {}", err.chars().take(30).collect::<String>()));
                return Ok(());
            }
        };
        // The encoder's output must itself decode (R2 round trip) — otherwise the case says
        // nothing about bita.
        let parsed = codec::parse_archive(&e.bytes).map_err(|x| format!("harness: encoder output does not parse: {}", x));
        let parsed = match parsed {
            Ok(pz) => pz,
            Err(x) => {
                rep.broken(x);
                return Ok(());
            }
        };
        if codec::reconstruct(&parsed, &e.bytes).ok().as_deref() != Some(&g.source[..]) {
            rep.broken("harness: encoder output does not reconstruct".into());
            return Ok(());
        }
        let apath = dir.join("a.cba");
        std::fs::write(&apath, &e.bytes).unwrap();
        // bita info
        let o = proc::run(&Run::new(&dir, "info", vec![s("info"), p(&apath)]));
        rep.eval();
        if o.exit == Exit::Timeout {
            rep.inconclusive("watchdog");
            return Ok(());
        }
        if !o.exit.ok() {
            return Err(format!("`bita info` rejects a conforming archive: {} :: {}", o.exit.describe(), o.tail()));
        }
        let mut cspec = CompressSpec::new(g.spec.cfg, comp_enum(g.spec.comp), g.spec.hash_len);
        cspec.metadata_files = g.spec.metadata.clone();
        let case = CCase { src_seed: 0, src_class: gen::SrcClass::Random, src_len: g.source.len(), len_class: String::new(), spec: cspec, writer: Writer::Lib };
        match super::c11::check_info(&String::from_utf8_lossy(&o.stdout), &g.source, &case, &parsed) {
            Ok(true) => rep.count("info_outputs_checked", 1),
            Ok(false) => rep.inconclusive("bita info output not parseable"),
            Err(w) => return Err(format!("`bita info` mis-reports a conforming archive: {}", w)),
        }
        // clone, local and HTTP
        for http in [false, true] {
            let out = dir.join(if http { "o_http.bin" } else { "o_local.bin" });
            // One HTTP clone in three meets a flaky link (one chunk-data response — the first,
            // second or third — ends in mid-body once, retries are on: the transfer resumes
            // and the clone must still reproduce the source); another third gets its bodies
            // in small pieces. Foreign layouts have several chunk-data requests, so what is
            // left over from one must not leak into the next.
            let flavour = (idx / 2) % 3;
            let cdo = e.chunk_data_offset;
            let victim = (idx / 6) % 3;
            let cut_seed = idx * 7919 + 13;
            let data_reqs = Arc::new(std::sync::atomic::AtomicUsize::new(0));
            let script: httpd::Script = match flavour {
                1 => {
                    let dr = data_reqs.clone();
                    let done = Arc::new(std::sync::atomic::AtomicBool::new(false));
                    Arc::new(move |r: &httpd::Req, _f: &[u8]| {
                        if let Some((a, b)) = r.range {
                            if a >= cdo && b > a {
                                let n = dr.fetch_add(1, std::sync::atomic::Ordering::SeqCst);
                                if n == victim && !done.swap(true, std::sync::atomic::Ordering::SeqCst) {
                                    let len = (b + 1 - a) as usize;
                                    return httpd::Action::CutAfter(1 + cut_seed % (len - 1));
                                }
                            }
                        }
                        httpd::Action::Full
                    })
                }
                2 => Arc::new(move |_r: &httpd::Req, _f: &[u8]| httpd::Action::Fragmented(vec![1 + cut_seed % 5, 1 + cut_seed % 300, 1 + cut_seed % 9000])),
                _ => httpd::well_behaved(),
            };
            let server = if http { Some(Server::start(Arc::new(e.bytes.clone()), script)) } else { None };
            let cs = CloneSpec {
                archive: server.as_ref().map(|x| x.url()).unwrap_or_else(|| p(&apath)),
                output: out.clone(),
                verify_output: idx % 2 == 0,
                retries: if http && flavour == 1 { Some(2) } else { None },
                ..Default::default()
            };
            let o = proc::run(&Run::new(&dir, if http { "clone_http" } else { "clone_local" }, scn::clone_args(&cs)));
            drop(server);
            rep.eval();
            if o.exit == Exit::Timeout {
                rep.inconclusive("watchdog");
                continue;
            }
            let who = if http { "clone over HTTP" } else { "local clone" };
            if !o.exit.ok() {
                return Err(format!("{} of a conforming archive failed: {} :: {}", who, o.exit.describe(), o.tail()));
            }
            let got = std::fs::read(&out).unwrap_or_default();
            if got != g.source {
                return Err(format!("{} of a conforming archive gives a wrong output (first difference {:?}, {} vs {} bytes)", who, first_diff(&got, &g.source), got.len(), g.source.len()));
            }
            rep.count(if http { "clones.http" } else { "clones.local" }, 1);
            if http && flavour == 1 && data_reqs.load(std::sync::atomic::Ordering::SeqCst) > victim {
                rep.count("clones.http_with_a_cut_response_and_retries", 1);
            }
        }
        // every seventh conforming archive is also cloned by the AddressSanitizer build
        if idx % 7 == 0 && super::asan::available() {
            let out = dir.join("o_asan.bin");
            let cs = CloneSpec { archive: p(&apath), output: out.clone(), ..Default::default() };
            let mut run = Run::new(&dir, "clone_asan", scn::clone_args(&cs));
            super::asan::arm(&mut run);
            let o = proc::run(&run);
            rep.eval();
            if let super::asan::Verdict::MemoryError(kind, ex) = super::asan::judge(&o) {
                return Err(format!("AddressSanitizer report ({}) while cloning a conforming archive: {}", kind, ex));
            }
            if o.exit.ok() && std::fs::read(&out).unwrap_or_default() == g.source {
                rep.count("clones.asan_build_clean", 1);
            } else if o.exit != Exit::Timeout {
                return Err(format!("the sanitizer build fails on / mis-clones a conforming archive: {} :: {}", o.exit.describe(), o.tail()));
            }
        }
        // in-place update (`--seed-output`) of an older version that holds the source's chunks
        // in another order (rotated / reversed / shuffled, sometimes with junk in between and
        // a longer tail): the reader's own index of the output meets the foreign archive's
        // hash length, order and layout.
        {
            let chunks = r1::chunk(&g.spec.cfg, &g.source);
            if chunks.len() >= 3 {
                let mut order: Vec<usize> = (0..chunks.len()).collect();
                match idx % 3 {
                    0 => order.rotate_left(1 + idx % (chunks.len() - 1)),
                    1 => order.reverse(),
                    _ => rng.shuffle(&mut order),
                }
                let mut prior = Vec::new();
                for (k, &i) in order.iter().enumerate() {
                    let (o, l) = (chunks[i].0 as usize, chunks[i].1 as usize);
                    prior.extend_from_slice(&g.source[o..o + l]);
                    if idx % 5 == 0 && k % 4 == 1 {
                        prior.extend(rng.bytes(1 + k % 50));
                    }
                }
                if idx % 4 == 0 {
                    prior.extend(rng.bytes(300));
                }
                let out = dir.join("o_inplace.bin");
                std::fs::write(&out, &prior).unwrap();
                let cs = CloneSpec { archive: p(&apath), output: out.clone(), seed_output: true, verify_output: idx % 2 == 1, ..Default::default() };
                let o = proc::run(&Run::new(&dir, "clone_inplace", scn::clone_args(&cs)));
                rep.eval();
                if o.exit == Exit::Timeout {
                    rep.inconclusive("watchdog");
                } else {
                    if !o.exit.ok() {
                        return Err(format!("in-place update from a conforming archive failed: {} :: {}", o.exit.describe(), o.tail()));
                    }
                    let got = std::fs::read(&out).unwrap_or_default();
                    if got != g.source {
                        return Err(format!("in-place update from a conforming archive gives a wrong output (first difference {:?}, {} vs {} bytes)", first_diff(&got, &g.source), got.len(), g.source.len()));
                    }
                    rep.count("clones.in_place", 1);
                }
            }
        }
        // library: accessors + clone over a fragmenting reader
        let rt = crate::exec::rt_multi(1);
        let r = crate::util::catch(|| {
            rt.block_on(crate::lib_drv::lib_clone_io(
                Arc::new(e.bytes.clone()),
                FragPlan::Random { seed: idx as u64 + 9, max: 700 },
                PendPlan::Every(5),
                &[],
                3,
            ))
        })
        .and_then(|x| x);
        rep.eval();
        let (file, acc) = r.map_err(|x| format!("library rejects / fails on a conforming archive: {}", x))?;
        if file.data != g.source {
            return Err("library clone of a conforming archive gives a wrong output".into());
        }
        let chunks = r1::chunk(&g.spec.cfg, &g.source);
        if acc.chunker != g.spec.cfg.describe()
            || acc.hash_length != g.spec.hash_len
            || acc.total_source_size != g.source.len() as u64
            || acc.source_checksum != b2(&g.source).to_vec()
            || acc.total_chunks != chunks.len()
            || acc.unique_chunks != e.dict.descs.len()
            || acc.chunk_data_offset != e.chunk_data_offset
            || acc.header_size != e.header_len
            || acc.version != g.spec.app_version
        {
            return Err(format!("library accessors disagree with the encoder's inputs: {:?}", (acc.chunker, acc.hash_length, acc.total_source_size, acc.total_chunks, acc.unique_chunks, acc.chunk_data_offset, acc.header_size, acc.version)));
        }
        let mut m = acc.metadata.clone();
        m.sort();
        let mut wm = g.spec.metadata.clone();
        wm.sort();
        if m != wm {
            return Err("library metadata accessors differ from the encoder's metadata".into());
        }
        for (i, d) in acc.descriptors.iter().enumerate() {
            let w = &e.dict.descs[i];
            if d.0 != w.checksum || d.1 != w.archive_size as usize || d.2 != e.chunk_data_offset + w.archive_offset || d.3 != w.source_size {
                return Err(format!("descriptor {} reported by the library differs from the encoder's", i));
            }
        }
        rep.count("library_clones", 1);
        rep.seen("encoding_features", format!(
            "legacy={} unpacked={} unknown={} defaults={} reversed={} slack={} order={:?} pad={} trailing={} raw={} bigger={}",
            g.spec.style.legacy_magic, g.spec.style.unpacked_order, g.spec.style.unknown_fields, g.spec.style.explicit_defaults,
            g.spec.style.reverse_fields, g.spec.slack > 0, g.spec.order, g.spec.max_pad > 0, g.spec.trailing > 0, g.spec.raw_share, g.spec.keep_bigger_share
        ));
        if chunks.is_empty() {
            rep.count("zero_chunk_archives", 1);
        }
        if e.dict.descs.iter().any(|d| d.archive_size > d.source_size) {
            rep.count("archives_with_chunk_stored_larger_than_source", 1);
        }
        rep.nontrivial(format!("{}#{}", desc, idx));
        rep.sample_if(idx % 37 == 0, || json!({"case": desc, "archive_len": e.bytes.len(), "descriptors": e.dict.descs.len(), "chunks": chunks.len()}));
        Ok(())
    })();
    scn::cleanup(&dir, res.is_err());
    res.err().map(|w| (w, desc))
}

pub fn run(tier: Tier, seed: u64) -> i32 {
    let rep = Report::new("C17", "exploration", tier, seed);
    let n = tier.pick(600, 8000);
    let res = par_map(n, crate::util::ncpu(), |i| (i, one_case(&rep, i, seed)));
    for (i, r) in res {
        if let Some((why, desc)) = r {
            let class: String = why.split("::").next().unwrap_or("").split('(').next().unwrap_or("").chars().filter(|c| !c.is_ascii_digit()).take(70).collect();
            rep.violation(
                &format!("c17/{}", class.trim()),
                json!({"why": why, "case": desc, "work_dir": format!("/verif/.work/C17/c{}", i)}),
                json!({"engine": "case", "idx": i, "seed": seed}),
            );
        }
    }
    if rep.counter("clones.local") == 0 || rep.counter("clones.http") == 0 || rep.counter("zero_chunk_archives") == 0 {
        rep.broken("no conforming archive was cloned / no zero-chunk archive generated".into());
    }
    rep.finish(
        "sources (all classes, lengths 0 / 1 / < window / up to 30 KB) encoded by the independent encoder with random combinations of: current or legacy magic; chunk data offset = header end + {0, 1, 7, 4096, 65537, random}; stored chunks in descriptor / reversed / shuffled order with 0..500 padding bytes between them and optional trailing bytes; unknown fields (wire types 0, 1, 2, 5) at every message level; packed or unpacked rebuild order; explicit default values; reversed top-level field order; per-chunk raw vs compressed (never compressed with stored == source size); none / brotli / zstd / lzma; hash lengths 4..64; zero chunks; fixed, RollSum and BuzHash parameter families; metadata; foreign version strings — each checked through `bita info`, `bita clone` locally and over HTTP (half with --verify-output) and the library (accessors + clone over a fragmenting reader); non-trivial = distinct conforming encodings accepted and cloned to the source",
        &[
            "descriptors are kept in order of first occurrence (the .proto says so); what is permuted is where chunks are stored",
            "deprecated protobuf group wire types are not generated (a parser may refuse them)",
            "every encoded archive is first checked to decode and reconstruct with R2's own decoder",
        ],
        json!({}),
        false,
    )
}

pub fn replay(v: &Value) -> i32 {
    let r = &v["replay"];
    let mut rep = Report::new("C17", "exploration", Tier::Quick, r["seed"].as_u64().unwrap_or(1));
    rep.replay_mode = true;
    match one_case(&rep, r["idx"].as_u64().unwrap_or(0) as usize, r["seed"].as_u64().unwrap_or(1)) {
        Some((w, d)) => {
            println!("replay: VIOLATED: {} [{}]", w, d);
            println!("VIOLATION property=C17 replay=(replayed)");
            1
        }
        None => {
            println!("replay: property held on this case");
            0
        }
    }
}
