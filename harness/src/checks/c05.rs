//! C05 — an interrupted clone can always be completed by re-running in place; a run
//! whose write failed or was cut short never reports success.
//!
//! Fault enumeration. Process engine: for a clone scenario the uninterrupted run gives
//! W output writes; for every k < W the k-th write (global index, all threads) is made
//! to fail (errno, transient or sticky), to crash the process before / after / in the
//! middle (torn prefix + _exit), or to be a legal short write; ftruncate likewise; real
//! short writes through RLIMIT_FSIZE. Then `bita clone --seed-output` is re-run without
//! faults (optionally crashed again first) and must exit 0 with output == source.
//! Library engine: every (layout, write index, tear offset) of a small scope on an
//! in-memory file, re-scanned with the real FixedSize chunker.
use super::clone_common::{self as cc, Built, CloneObs, Faults, Focus, OutKind, Scenario};
use super::layout::{self, Layout, GARBAGE};
use crate::evidence::{Report, Tier};
use crate::exec::block_on_busy;
use crate::inst::{FragPlan, FragSource, MemFile, PendPlan, WriteFault};
use crate::proc::Exit;
use crate::refimpl::chunker::{Algo, Cfg};
use crate::scn;
use crate::util::{par_map, short_id, Rng};
use futures_util::StreamExt;
use serde_json::{json, Value};
use std::sync::Arc;

#[derive(Clone, Debug, PartialEq, Eq)]
pub enum Mode {
    ExitBefore,
    ExitAfter,
    Torn(usize),
    Errno(i32, bool),
    Short(usize),
}

impl Mode {
    fn spec(&self, k: u64) -> String {
        match self {
            Mode::ExitBefore => format!("0,{},exit_before,0", k),
            Mode::ExitAfter => format!("0,{},exit_after,0", k),
            Mode::Torn(t) => format!("0,{},torn,{}", k, t),
            Mode::Errno(e, sticky) => format!("0,{},errno,{}{}", k, e, if *sticky { ",sticky" } else { "" }),
            Mode::Short(t) => format!("0,{},short,{}", k, t),
        }
    }
    fn name(&self) -> &'static str {
        match self {
            Mode::ExitBefore => "exit_before",
            Mode::ExitAfter => "exit_after",
            Mode::Torn(_) => "torn",
            Mode::Errno(_, false) => "errno",
            Mode::Errno(_, true) => "errno_sticky",
            Mode::Short(_) => "short_write",
        }
    }
    fn to_json(&self) -> Value {
        match self {
            Mode::ExitBefore => json!(["exit_before", 0, false]),
            Mode::ExitAfter => json!(["exit_after", 0, false]),
            Mode::Torn(t) => json!(["torn", t, false]),
            Mode::Errno(e, s) => json!(["errno", e, s]),
            Mode::Short(t) => json!(["short", t, false]),
        }
    }
    fn from_json(v: &Value) -> Mode {
        let a = v[1].as_i64().unwrap_or(0);
        match v[0].as_str().unwrap_or("") {
            "exit_before" => Mode::ExitBefore,
            "exit_after" => Mode::ExitAfter,
            "torn" => Mode::Torn(a as usize),
            "errno" => Mode::Errno(a as i32, v[2].as_bool().unwrap_or(false)),
            _ => Mode::Short(a as usize),
        }
    }
}

fn write_shape(o: &CloneObs) -> Vec<(u64, usize)> {
    o.writes.iter().map(|(off, d)| (*off, d.len())).collect()
}

/// Scenario for the re-run: same archive, output as seed; `with_seeds` keeps the
/// original seed files.
fn rerun_scenario(sc: &Scenario, with_seeds: bool) -> Scenario {
    let mut r = sc.clone();
    r.out_kind = if sc.out_kind == OutKind::BlockDev { OutKind::BlockDev } else { OutKind::InPlace };
    if !with_seeds {
        r.seeds.clear();
        r.stdin_seed = None;
    }
    r.verify_output = false;
    r
}

fn rerun(dir: &std::path::Path, b: &Built, sc: &Scenario, with_seeds: bool, tag: &str, faults: &Faults) -> CloneObs {
    let rs = rerun_scenario(sc, with_seeds);
    // The Built's seed paths/stdin are reused only when with_seeds.
    if with_seeds {
        cc::run_clone(dir, b, &rs, tag, faults)
    } else {
        let b2 = Built {
            source: b.source.clone(),
            arch: scn::Arch {
                path: b.arch.path.clone(),
                bytes: b.arch.bytes.clone(),
                model: b.arch.model.clone(),
                source: b.arch.source.clone(),
                compress_outcome: None,
            },
            prior: b.prior.clone(),
            seeds: vec![],
            stdin_seed: None,
            pred: Default::default(),
            out_path: b.out_path.clone(),
            seed_paths: vec![],
        };
        cc::run_clone(dir, &b2, &rs, tag, faults)
    }
}

struct CaseOut {
    violation: Option<String>,
    inconclusive: Option<&'static str>,
    state: Option<String>,
}

/// One (scenario, k, mode) case. `second`: crash the re-run as well at this write index.
#[allow(clippy::too_many_arguments)]
fn fault_case(
    dir: &std::path::Path,
    b: &Built,
    sc: &Scenario,
    reference: &[(u64, usize)],
    k: u64,
    mode: &Mode,
    second: Option<u64>,
    with_seeds: bool,
    tag: &str,
) -> CaseOut {
    let mut out = CaseOut { violation: None, inconclusive: None, state: None };
    cc::prepare_output(b, sc);
    let o = cc::run_clone(dir, b, sc, &format!("{}a", tag), &Faults { fault: Some(mode.spec(k)), ..Default::default() });
    if o.exit == Exit::Timeout {
        out.inconclusive = Some("watchdog (faulted run)");
        return out;
    }
    if !o.fault_fired {
        out.inconclusive = Some("fault did not fire (write sequence shorter than in the reference run)");
        return out;
    }
    // The writes before the fault must be the reference's prefix, otherwise "k-th write"
    // does not denote the same point of the clone.
    let shape = write_shape(&o);
    let upto = (k as usize).min(shape.len()).min(reference.len());
    if shape[..upto] != reference[..upto] {
        out.inconclusive = Some("write sequence differs from the reference run");
        return out;
    }
    match mode {
        Mode::Errno(..) => {
            if o.exit.ok() {
                out.violation = Some(format!(
                    "write #{} failed with errno but the clone reported success ({})",
                    k,
                    o.tail.lines().last().unwrap_or("")
                ));
                return out;
            }
        }
        Mode::Short(_) => {
            // A legal short write: either outcome is fine, but success must be exact.
            if o.exit.ok() {
                if let Err(e) = cc::judge_final(b, sc, &o) {
                    out.violation = Some(format!("after a short write #{} the clone reported success but {}", k, e));
                }
                return out;
            }
        }
        _ => {
            if o.exit.ok() {
                out.violation = Some("process was killed by the shim but exit status is 0".into());
                return out;
            }
        }
    }
    out.state = o.output.as_ref().map(|d| short_id(d));
    // Optionally crash the re-run too.
    if let Some(k2) = second {
        let o2 = rerun(dir, b, sc, with_seeds, &format!("{}b", tag), &Faults { fault: Some(Mode::Torn(1).spec(k2)), ..Default::default() });
        if o2.exit == Exit::Timeout {
            out.inconclusive = Some("watchdog (second crash)");
            return out;
        }
    }
    let o3 = rerun(dir, b, sc, with_seeds, &format!("{}c", tag), &Faults::default());
    if o3.idle_hang {
        out.violation = Some(format!("re-run after {} at write {} did not end: stopped by the watchdog having used hardly any CPU (idle, not slow)", mode.name(), k));
        return out;
    }
    if o3.exit == Exit::Timeout {
        out.inconclusive = Some("watchdog (re-run)");
        return out;
    }
    let rs = rerun_scenario(sc, with_seeds);
    if let Err(e) = cc::judge_final(b, &rs, &o3) {
        out.violation = Some(format!("re-run after {} at write #{}{}: {}", mode.name(), k, second.map(|x| format!(" (+ second crash at #{})", x)).unwrap_or_default(), e));
    }
    out
}

fn gen_c05_scenario(rng: &mut Rng, max_writes: usize) -> Scenario {
    let mut sc = cc::gen_scenario(rng, Focus::Mixed, (1, 8), true);
    // Keep W small: 5..max_writes chunks.
    let target_chunks = rng.urange(8, max_writes);
    match sc.cfg.algo {
        Algo::Fixed => {
            sc.cfg = Cfg::fixed(rng.urange(40, 600));
            sc.src_len = sc.cfg.max * target_chunks - rng.urange(0, sc.cfg.max - 1);
        }
        _ => {
            let avg = 1usize << (sc.cfg.bits + 1);
            sc.src_len = (avg * target_chunks).max(400).min(60_000);
        }
    }
    sc.verify_output = false;
    sc
}

fn with_out(b: &Built, out: std::path::PathBuf) -> Built {
    Built {
        source: b.source.clone(),
        arch: scn::Arch {
            path: b.arch.path.clone(),
            bytes: b.arch.bytes.clone(),
            model: b.arch.model.clone(),
            source: Vec::new(),
            compress_outcome: None,
        },
        prior: b.prior.clone(),
        seeds: b.seeds.clone(),
        stdin_seed: b.stdin_seed.clone(),
        pred: b.pred.clone(),
        out_path: out,
        seed_paths: b.seed_paths.clone(),
    }
}

#[derive(Clone, Debug)]
enum Job {
    Write { k: u64, mode: Mode, second: Option<u64>, with_seeds: bool },
    Trunc(&'static str, &'static str),
    Fsize(u64),
    /// Crash point "before anything": the first run was interrupted before the output even
    /// existed (during the header fetch, say). The re-run names an OUTPUT that is not there.
    Absent,
}

struct Prepared {
    idx: usize,
    sc: Scenario,
    dir: std::path::PathBuf,
    built: Built,
    reference: Vec<(u64, usize)>,
}

fn prepare(rep: &Report, idx: usize, sc: &Scenario, max_writes: usize) -> Result<Prepared, Vec<(String, Value)>> {
    let dir = scn::case_dir("C05", idx);
    let b = match cc::build(&dir, sc) {
        Ok(b) => b,
        Err(e) => {
            rep.inconclusive(&e.chars().take(40).collect::<String>());
            scn::cleanup(&dir, false);
            return Err(vec![]);
        }
    };
    cc::prepare_output(&b, sc);
    let r0 = cc::run_clone(&dir, &b, sc, "ref", &Faults::default());
    rep.eval();
    if let Err(e) = cc::judge_final(&b, sc, &r0) {
        // "No fault at all": for an in-place scenario this is the re-run itself failing on
        // the original prior content.
        scn::cleanup(&dir, false);
        if r0.exit != Exit::Timeout && matches!(sc.out_kind, OutKind::InPlace | OutKind::BlockDev) {
            return Err(vec![(format!("uninterrupted in-place clone: {}", e), json!({"k": null}))]);
        }
        rep.inconclusive("uninterrupted clone failed (judged by C01)");
        return Err(vec![]);
    }
    let reference = write_shape(&r0);
    if reference.len() > max_writes * 3 {
        rep.inconclusive("scenario has too many writes for enumeration");
        scn::cleanup(&dir, false);
        return Err(vec![]);
    }
    rep.count("scenarios_enumerated", 1);
    rep.count("reference_writes", reference.len() as u64);
    Ok(Prepared { idx, sc: sc.clone(), dir, built: b, reference })
}

fn jobs_of(p: &Prepared, tier: Tier) -> Vec<Job> {
    let mut rng = Rng::new(p.sc.src_seed ^ 0xc05);
    let w = p.reference.len();
    let mut jobs = Vec::new();
    for k in 0..w as u64 {
        let len = p.reference[k as usize].1;
        // one-shot errors of different classes (hard, would-block, timed out, quota): none of
        // them may be mistaken for something that can be papered over
        // (EINTR is left out: the standard library repeats an interrupted write in full,
        // which loses nothing.) The table is walked by write index + scenario number, so every
        // class meets first, middle and last writes across the scenarios of a run.
        const ONCE: [i32; 20] = [
            libc::EIO, libc::EAGAIN, libc::ETIMEDOUT, libc::EPIPE, libc::EDQUOT, libc::EFBIG, libc::EROFS, libc::ENXIO, libc::ENOMEM, libc::EBADF,
            libc::EINVAL, libc::ECONNRESET, libc::ENODEV, libc::ENOBUFS, libc::ESTALE, libc::EPERM, libc::EACCES, libc::ENOLCK, libc::EOVERFLOW, libc::ENOSPC,
        ];
        let once = ONCE[((k as usize) + p.idx * 7) % ONCE.len()];
        // the last write additionally meets a second class (its error is reported only to
        // whoever asks after the last chunk)
        let once_last = ONCE[((k as usize) + p.idx * 7 + 3) % ONCE.len()];
        let mut modes = vec![Mode::ExitBefore, Mode::ExitAfter, Mode::Errno(once, false), Mode::Errno(libc::ENOSPC, true)];
        if k as usize == w - 1 {
            modes.push(Mode::Errno(once_last, false));
        }
        if len > 1 {
            modes.push(Mode::Torn(1));
            modes.push(Mode::Torn(len - 1));
            if len > 2 {
                modes.push(Mode::Torn(len / 2));
            }
            modes.push(Mode::Short(rng.urange(1, len - 1)));
        }
        for mode in modes {
            let second = if tier == Tier::Thorough && rng.chance(1, 5) { Some(rng.below(w as u64)) } else { None };
            jobs.push(Job::Write { k, mode, second, with_seeds: rng.chance(1, 2) });
        }
    }
    if !matches!(p.sc.out_kind, OutKind::InPlace | OutKind::BlockDev) {
        jobs.push(Job::Absent);
    }
    if p.sc.out_kind != OutKind::BlockDev {
        jobs.push(Job::Trunc("0,errno,5", "trunc_errno"));
        jobs.push(Job::Trunc("0,exit_before,0", "trunc_exit_before"));
        jobs.push(Job::Trunc("0,exit_after,0", "trunc_exit_after"));
        if p.built.source.len() >= 8 {
            for _ in 0..2 {
                jobs.push(Job::Fsize(rng.urange(1, p.built.source.len() - 1) as u64));
            }
        }
    }
    jobs
}

/// Run one job; returns (violation, state id).
fn run_job(rep: &Report, p: &Prepared, jn: usize, job: &Job) -> (Option<(String, Value)>, Option<String>) {
    let sc = &p.sc;
    let b = with_out(&p.built, p.dir.join(format!("out{}.bin", jn)));
    let dir = &p.dir;
    let tag = format!("j{}", jn);
    let res = match job {
        Job::Write { k, mode, second, with_seeds } => {
            let c = fault_case(dir, &b, sc, &p.reference, *k, mode, *second, *with_seeds, &tag);
            rep.eval();
            rep.count(&format!("faults.{}", mode.name()), 1);
            if second.is_some() {
                rep.count("faults.double_crash", 1);
            }
            if let Some(r) = c.inconclusive {
                rep.inconclusive(r);
                (None, c.state)
            } else {
                rep.nontrivial(format!("{}:{}:{:?}", p.idx, k, mode));
                (c.violation.map(|v| (v, json!({"k": k, "mode": mode.to_json(), "second": second, "with_seeds": with_seeds}))), c.state)
            }
        }
        Job::Trunc(tm, name) => {
            cc::prepare_output(&b, sc);
            let o = cc::run_clone(dir, &b, sc, &format!("{}t", tag), &Faults { trunc_fault: Some(tm.to_string()), ..Default::default() });
            rep.eval();
            rep.count(&format!("faults.{}", name), 1);
            if o.exit == Exit::Timeout || !o.fault_fired {
                rep.inconclusive("ftruncate fault did not fire / watchdog");
                (None, None)
            } else if o.exit.ok() {
                (Some((format!("{}: ftruncate failed / process killed but the clone reported success", name), json!({"trunc": tm}))), None)
            } else {
                rep.nontrivial(format!("{}:{}", p.idx, name));
                let o3 = rerun(dir, &b, sc, false, &format!("{}r", tag), &Faults::default());
                let rs = rerun_scenario(sc, false);
                match cc::judge_final(&b, &rs, &o3) {
                    Err(e) if o3.exit != Exit::Timeout => (Some((format!("re-run after {}: {}", name, e), json!({"trunc": tm}))), None),
                    _ => (None, None),
                }
            }
        }
        Job::Absent => {
            let _ = std::fs::remove_file(&b.out_path);
            let o3 = rerun(dir, &b, sc, false, &format!("{}n", tag), &Faults::default());
            rep.eval();
            rep.count("reruns_with_the_output_not_existing_yet", 1);
            let rs = rerun_scenario(sc, false);
            if o3.idle_hang {
                (Some(("re-run with the output not existing yet did not end (idle)".to_string(), json!({"absent": true}))), None)
            } else if o3.exit == Exit::Timeout {
                rep.inconclusive("watchdog");
                (None, None)
            } else {
                match cc::judge_final(&b, &rs, &o3) {
                    Err(e) => (Some((format!("first run interrupted before the output existed; re-run with the output as seed: {}", e), json!({"absent": true}))), None),
                    Ok(()) => {
                        rep.nontrivial(format!("{}:absent", p.idx));
                        (None, None)
                    }
                }
            }
        }
        Job::Fsize(limit) => {
            cc::prepare_output(&b, sc);
            let o = cc::run_clone(dir, &b, sc, &format!("{}f", tag), &Faults { rlimit_fsize: Some(*limit), ..Default::default() });
            rep.eval();
            rep.count("faults.rlimit_fsize", 1);
            if o.exit == Exit::Timeout {
                rep.inconclusive("watchdog");
                (None, None)
            } else {
                let hit = o.shim.iter().any(|r| r.widx == 0 && r.kind == crate::proc::K_WRITE && (r.ret < 0 || (r.ret as u64) < r.len));
                if hit {
                    rep.count("faults.rlimit_fsize_hit_a_write", 1);
                    rep.nontrivial(format!("{}:fsize{}", p.idx, limit));
                }
                if o.exit.ok() && hit && cc::judge_final(&b, sc, &o).is_err() {
                    (Some((format!("a write hit RLIMIT_FSIZE={} (short/failed) but the clone reported success with a wrong output", limit), json!({"fsize": limit}))), None)
                } else {
                    let o3 = rerun(dir, &b, sc, false, &format!("{}r", tag), &Faults::default());
                    let rs = rerun_scenario(sc, false);
                    match cc::judge_final(&b, &rs, &o3) {
                        Err(e) if o3.exit != Exit::Timeout => (Some((format!("re-run after RLIMIT_FSIZE={}: {}", limit, e), json!({"fsize": limit}))), None),
                        _ => (None, None),
                    }
                }
            }
        }
    };
    let _ = std::fs::remove_file(&b.out_path);
    res
}

/// Sequential variant used by replay.
pub fn one_scenario(rep: &Report, idx: usize, sc: &Scenario, tier: Tier, max_writes: usize) -> Vec<(String, Value)> {
    match prepare(rep, idx, sc, max_writes) {
        Err(v) => v,
        Ok(p) => {
            let mut viols = Vec::new();
            for (jn, job) in jobs_of(&p, tier).iter().enumerate() {
                if let (Some(v), _) = run_job(rep, &p, jn, job) {
                    viols.push(v);
                }
            }
            scn::cleanup(&p.dir, false);
            viols
        }
    }
}

// ---------------------------------------------------------------------------
// Library engine

/// Re-run on an arbitrary file content: scan with the real FixedSize chunker (all
/// identities have size `s`), reorder in place, supply the rest, resize.
fn lib_rerun(l: &Layout, bytes: Vec<u8>, s: usize, fault: WriteFault) -> Result<(Vec<u8>, bool), String> {
    crate::util::catch(|| lib_rerun_inner(l, bytes, s, fault)).and_then(|x| x)
}

fn lib_rerun_inner(l: &Layout, bytes: Vec<u8>, s: usize, fault: WriteFault) -> Result<(Vec<u8>, bool), String> {
    let bcfg = bitar::chunker::Config::FixedSize(s);
    let mf = MemFile::new(bytes.clone()).with_fault(fault);
    let mut out = bitar::CloneOutput::new(mf, l.target_index());
    let r = block_on_busy(
        async {
            let mut index = bitar::ChunkIndex::new_empty(l.hash_len);
            let mut ch = bcfg.new_chunker(FragSource::new(Arc::new(bytes), FragPlan::Fixed(2), PendPlan::Never));
            while let Some(r) = ch.next().await {
                let (off, c) = r.map_err(|e| e.to_string())?;
                let (h, c) = c.verify().into_parts();
                index.add_chunk(h, c.len(), &[off]);
            }
            out.reorder_in_place(index).await.map_err(|e| format!("reorder: {}", e))?;
            let ids: std::collections::BTreeSet<usize> = l.target.iter().copied().collect();
            for id in ids {
                if out.chunks().contains(&l.hash_of(id)) {
                    let v = bitar::Chunk::from(layout::content(id, l.sizes[id])).verify();
                    out.feed(&v).await.map_err(|e| format!("feed: {}", e))?;
                }
            }
            Ok::<(), String>(())
        },
        10_000_000,
    );
    let file = out.into_inner();
    let fired = file.fault_fired;
    match r {
        None => Err("hang".into()),
        Some(Err(e)) => {
            if file.dead || fired {
                Ok((file.data, true))
            } else {
                Err(e)
            }
        }
        Some(Ok(())) => {
            let mut d = file.data;
            d.resize(l.target_bytes().len(), 0);
            Ok((d, false))
        }
    }
}

fn lib_layout_faults(l: &Layout, s: usize, double: bool) -> Result<(u64, u64), String> {
    // Reference run to learn W and the length of each write.
    let r0 = layout::execute(l, l.prior_bytes(), WriteFault::None, None);
    if r0.panicked.is_some() || r0.error.is_some() {
        return Err(format!("uninterrupted run fails: {:?}{:?}", r0.panicked, r0.error));
    }
    let target = l.target_bytes();
    let (mut cases, mut states) = (0u64, 0u64);
    let mut seen = std::collections::HashSet::new();
    for (k, (_, data)) in r0.writes.iter().enumerate() {
        // Error at k: must not report success.
        let re = layout::execute(l, l.prior_bytes(), WriteFault::Error { k: k as u64 }, None);
        cases += 1;
        if re.fault_fired && re.error.is_none() && re.panicked.is_none() {
            return Err(format!("write #{} failed but the clone reported success", k));
        }
        if let Some(p) = re.panicked {
            return Err(format!("panic after failed write #{}: {}", k, p));
        }
        // The state left behind by an error is also a crash state: re-run from it.
        let (fin, _) = lib_rerun(l, re.final_bytes.clone(), s, WriteFault::None).map_err(|e| format!("re-run after error at write #{}: {}", k, e))?;
        if fin != target {
            return Err(format!("re-run after error at write #{} leaves a wrong output", k));
        }
        for t in 0..=data.len() {
            let rc = layout::execute(l, l.prior_bytes(), WriteFault::Crash { k: k as u64, t }, None);
            cases += 1;
            if let Some(p) = rc.panicked {
                return Err(format!("panic at crash point ({}, {}): {}", k, t, p));
            }
            if rc.fault_fired && rc.error.is_none() {
                return Err(format!("crash at write #{} (torn after {} bytes) but the clone reported success", k, t));
            }
            if seen.insert(rc.final_bytes.clone()) {
                states += 1;
            }
            let crashed = rc.final_bytes;
            let start = if double {
                // crash the re-run at its first write too (torn after 1 byte), then run clean
                match lib_rerun(l, crashed.clone(), s, WriteFault::Crash { k: 0, t: 1 }) {
                    Ok((d, _)) => d,
                    Err(e) => return Err(format!("second (crashing) run after ({}, {}): {}", k, t, e)),
                }
            } else {
                crashed
            };
            let (fin, _) = lib_rerun(l, start, s, WriteFault::None).map_err(|e| format!("re-run after crash point ({}, {}): {}", k, t, e))?;
            if fin != target {
                return Err(format!(
                    "re-run after crash at write #{} torn after {} bytes leaves a wrong output (first difference at {:?})",
                    k,
                    t,
                    crate::util::first_diff(&fin, &target)
                ));
            }
        }
    }
    Ok((cases, states))
}

fn lib_engine(rep: &Report, tier: Tier, seed: u64) {
    let shards = 64;
    let (kmax, n, m) = tier.pick((2, 3, 3), (3, 4, 4));
    let out = par_map(shards, crate::util::ncpu(), |sh| {
        let (mut layouts, mut cases, mut states) = (0u64, 0u64, 0u64);
        let mut viol: Vec<(String, Layout, usize)> = Vec::new();
        for s in [1usize, 2, 3] {
            for kk in 1..=kmax {
                layout::enumerate(kk, n, m, &[s], sh, shards, &mut |l| {
                    // garbage slots of size 1/2 make the scan unaligned for s=3: fine, that is
                    // what a real prior output looks like.
                    layouts += 1;
                    match lib_layout_faults(l, s, layouts % 7 == 0) {
                        Ok((c, st)) => {
                            cases += c;
                            states += st;
                        }
                        Err(why) => {
                            if viol.len() < 3 {
                                viol.push((why, l.clone(), s));
                            }
                        }
                    }
                });
            }
        }
        // random larger uniform-size layouts
        let per = tier.pick(150, 4000);
        for j in 0..per {
            let mut rng = Rng::new(seed).fork(0x0500_0000 + (sh * per + j) as u64);
            let s = rng.urange(1, 6);
            let mut l = layout::random_layout(&mut rng, 9, 5, 6);
            for x in l.sizes.iter_mut() {
                *x = s;
            }
            for p in l.prior.iter_mut() {
                if p.0 != GARBAGE {
                    p.1 = s;
                }
            }
            l.hash_len = 64;
            layouts += 1;
            match lib_layout_faults(&l, s, j % 5 == 0) {
                Ok((c, st)) => {
                    cases += c;
                    states += st;
                }
                Err(why) => {
                    if viol.len() < 3 {
                        viol.push((why, l, s));
                    }
                }
            }
        }
        (layouts, cases, states, viol)
    });
    for (layouts, cases, states, viol) in out {
        rep.evals(cases);
        rep.count("lib.layouts", layouts);
        rep.count("lib.crash_and_error_points", cases);
        rep.count("lib.distinct_interrupted_states", states);
        for (why, l, s) in viol {
            let class: String = why.chars().filter(|c| !c.is_ascii_digit()).take(50).collect();
            rep.violation(
                &format!("c05/lib/{}", class),
                json!({"why": why, "layout": l.describe(), "chunk_size": s}),
                json!({"engine": "layout", "layout": l.to_json(), "s": s}),
            );
        }
    }
}

pub fn run(tier: Tier, seed: u64) -> i32 {
    let rep = Report::new("C05", "fault_enumeration", tier, seed);
    lib_engine(&rep, tier, seed);
    let nsc = tier.pick(40, 320);
    let max_writes = tier.pick(24, 60);
    let prepared = par_map(nsc, crate::util::ncpu(), |i| {
        let mut rng = Rng::new(seed).fork(0x0500 + i as u64);
        let sc = gen_c05_scenario(&mut rng, max_writes);
        let r = prepare(&rep, i, &sc, max_writes);
        (i, sc, r)
    });
    let mut ready: Vec<Prepared> = Vec::new();
    let report_v = |i: usize, sc: &Scenario, why: String, fault: Value| {
        let class: String = why.split([':', '(']).next().unwrap_or("").chars().filter(|c| !c.is_ascii_digit() && *c != '#').take(60).collect();
        rep.violation(
            &format!("c05/process/{}/{}", sc.out_kind.name(), class.trim()),
            json!({"why": why, "fault": fault, "scenario": sc.to_json(), "work_dir": format!("/verif/.work/C05/c{}", i)}),
            json!({"engine": "process", "scenario": sc.to_json(), "fault": fault, "max_writes": max_writes}),
        );
    };
    for (i, sc, r) in prepared {
        match r {
            Ok(p) => ready.push(p),
            Err(vs) => {
                for (why, fault) in vs {
                    report_v(i, &sc, why, fault);
                }
            }
        }
    }
    let mut flat: Vec<(usize, usize, Job)> = Vec::new();
    for (pi, p) in ready.iter().enumerate() {
        for (jn, j) in jobs_of(p, tier).into_iter().enumerate() {
            flat.push((pi, jn, j));
        }
    }
    let results = par_map(flat.len(), crate::util::ncpu(), |x| {
        let (pi, jn, job) = &flat[x];
        run_job(&rep, &ready[*pi], *jn, job)
    });
    let mut bad_dirs = std::collections::HashSet::new();
    let mut per_scn: std::collections::HashMap<usize, usize> = std::collections::HashMap::new();
    for (x, (v, state)) in results.into_iter().enumerate() {
        let p = &ready[flat[x].0];
        if let Some(s) = state {
            rep.seen("distinct_interrupted_output_states", format!("{}:{}", p.idx, s));
        }
        if let Some((why, fault)) = v {
            let n = per_scn.entry(p.idx).or_insert(0);
            *n += 1;
            if *n <= 3 {
                report_v(p.idx, &p.sc, why, fault);
            }
            bad_dirs.insert(p.idx);
        }
    }
    for p in &ready {
        rep.sample_if(p.idx % 7 == 0, || json!({"scenario": p.sc.to_json(), "writes_W": p.reference.len(), "reference_write_shape": p.reference.iter().take(6).collect::<Vec<_>>()}));
        scn::cleanup(&p.dir, bad_dirs.contains(&p.idx));
    }
    if rep.counter("scenarios_enumerated") == 0 || rep.counter("faults.torn") == 0 || rep.counter("faults.errno") == 0 {
        rep.broken("no scenario was enumerated / no fault fired".into());
    }
    rep.finish(
        "process engine: per scenario (plain / seeds / in-place incl. block device via hook) every output write index k of the uninterrupted run x {_exit before, _exit after, torn after 1 / mid / len-1 bytes + _exit, one of 20 errno classes once (EIO, EAGAIN, ETIMEDOUT, EPIPE, EDQUOT, EFBIG, EROFS, ENXIO, ENOMEM, EBADF, EINVAL, ECONNRESET, ENODEV, ENOBUFS, ESTALE, EPERM, EACCES, ENOLCK, EOVERFLOW, ENOSPC; walked by write index + scenario), ENOSPC sticky, legal short write} injected by the LD_PRELOAD shim on the k-th write of the process (all threads), plus ftruncate failing / crashing and RLIMIT_FSIZE real short writes; then `bita clone --seed-output` (with or without the original seeds; in the thorough tier sometimes crashed a second time first) must exit 0 with output == source; a failed write must give a non-zero exit; library engine: all small uniform-size layouts x every write index x every tear offset 0..len (and an I/O error at every write) on an in-memory file, re-scanned with the real FixedSize chunker; non-trivial = distinct (scenario, k, mode) triples whose fault fired and whose write prefix matched the reference run",
        &[
            "an interrupted process leaves the page cache intact (the shim's _exit); power loss is out of scope",
            "the k-th write denotes the same point only if the write sequence is deterministic: checked per case (prefix of the reference log), else counted inconclusive",
        ],
        json!({}),
        false,
    )
}

pub fn replay(v: &Value) -> i32 {
    let r = &v["replay"];
    let mut rep = Report::new("C05", "fault_enumeration", Tier::Quick, 0);
    rep.replay_mode = true;
    if r["engine"] == "layout" {
        let l = Layout::from_json(&r["layout"]);
        return match lib_layout_faults(&l, r["s"].as_u64().unwrap_or(1) as usize, false).and(lib_layout_faults(&l, r["s"].as_u64().unwrap_or(1) as usize, true)) {
            Err(w) => {
                println!("replay: VIOLATED: {}", w);
                println!("VIOLATION property=C05 replay=(replayed)");
                1
            }
            Ok(_) => {
                println!("replay: property held on this layout");
                0
            }
        };
    }
    let sc = Scenario::from_json(&r["scenario"]);
    let _ = Mode::from_json(&json!(["exit_before", 0, false]));
    let viols = one_scenario(&rep, 900_000, &sc, Tier::Thorough, r["max_writes"].as_u64().unwrap_or(60) as usize);
    if viols.is_empty() {
        println!("replay: property held on every fault of this scenario");
        0
    } else {
        for (w, f) in &viols {
            println!("replay: VIOLATED: {} {}", w, f);
        }
        println!("VIOLATION property=C05 replay=(replayed)");
        1
    }
}
