//! Clone scenario engine shared by C02 / C03 / C05 / C06 / C07 / C13: build an archive
//! with the real CLI, derive seeds / prior outputs, run the real `bita clone` under the
//! shim (and optionally against the scripted HTTP server) and collect everything the
//! monitors need: exit status, output bytes, write log, Range log.
use super::ccommon::{class_from, class_name};
use crate::gen::{self, Comp, Edit, SrcClass};
use crate::httpd::{self, ReqLog, Server};
use crate::proc::{self, Exit, Outcome, Rec, Run, K_FTRUNCATE, K_PWRITE, K_WRITE};
use crate::refimpl::chunker::{self as r1, Algo, Cfg};
use crate::refimpl::model::Prediction;
use crate::scn::{self, Arch, CloneSpec, CompressSpec};
use crate::util::{b2, Rng};
use std::os::unix::fs::OpenOptionsExt;
use serde_json::{json, Value};
use std::path::{Path, PathBuf};
use std::sync::Arc;

#[derive(Clone, Copy, Debug, PartialEq, Eq)]
pub enum OutKind {
    /// Output path does not exist.
    New,
    /// Existing regular file with prior content, `--seed-output`.
    InPlace,
    /// Existing regular file treated as a block device (hook), `--seed-output`.
    BlockDev,
    /// Existing regular file overwritten with `--force-create` (no in-place seed).
    Force,
}

impl OutKind {
    pub fn name(&self) -> &'static str {
        match self {
            OutKind::New => "new",
            OutKind::InPlace => "inplace",
            OutKind::BlockDev => "blockdev",
            OutKind::Force => "force",
        }
    }
    pub fn from_name(s: &str) -> OutKind {
        match s {
            "new" => OutKind::New,
            "inplace" => OutKind::InPlace,
            "blockdev" => OutKind::BlockDev,
            _ => OutKind::Force,
        }
    }
}

/// How a related stream (seed / prior output) is derived from the source.
#[derive(Clone, Debug, PartialEq, Eq)]
pub enum Derive {
    Edit(Edit, u64),
    /// Chunk-level layout: slots are source chunks (by index, duplicates allowed) or
    /// garbage of the given length.
    ChunkShuffle(u64),
    /// Same-size-different-content: the source with every k-th chunk's bytes replaced.
    SameSizeOther(u64),
}

fn edit_name(e: Edit) -> &'static str {
    match e {
        Edit::Same => "same",
        Edit::Unrelated => "unrelated",
        Edit::Insert => "insert",
        Edit::Delete => "delete",
        Edit::Swap => "swap",
        Edit::Duplicate => "duplicate",
        Edit::Truncate => "truncate",
        Edit::Extend => "extend",
        Edit::Overwrite => "overwrite",
        Edit::Empty => "empty",
        Edit::Prefix => "prefix",
        Edit::Mixed => "mixed",
    }
}
fn edit_from(s: &str) -> Edit {
    *gen::EDITS.iter().find(|e| edit_name(**e) == s).unwrap_or(&Edit::Same)
}

impl Derive {
    pub fn name(&self) -> String {
        match self {
            Derive::Edit(e, _) => edit_name(*e).to_string(),
            Derive::ChunkShuffle(_) => "chunkshuffle".into(),
            Derive::SameSizeOther(_) => "samesize".into(),
        }
    }
    pub fn to_json(&self) -> Value {
        match self {
            Derive::Edit(e, s) => json!(["edit", edit_name(*e), s]),
            Derive::ChunkShuffle(s) => json!(["chunkshuffle", "", s]),
            Derive::SameSizeOther(s) => json!(["samesize", "", s]),
        }
    }
    pub fn from_json(v: &Value) -> Derive {
        let s = v[2].as_u64().unwrap();
        match v[0].as_str().unwrap() {
            "edit" => Derive::Edit(edit_from(v[1].as_str().unwrap()), s),
            "chunkshuffle" => Derive::ChunkShuffle(s),
            _ => Derive::SameSizeOther(s),
        }
    }
    pub fn apply(&self, source: &[u8], cfg: &Cfg) -> Vec<u8> {
        match self {
            Derive::Edit(e, s) => gen::apply_edit(&mut Rng::new(*s), source, *e),
            Derive::ChunkShuffle(s) => {
                let mut rng = Rng::new(*s);
                let chunks = r1::chunk(cfg, source);
                if chunks.is_empty() {
                    return rng.bytes(10);
                }
                let slots = rng.urange(1, chunks.len() + 3);
                let mode = rng.below(4);
                let mut out = Vec::new();
                for i in 0..slots {
                    if rng.chance(1, 6) {
                        let l = rng.urange(1, chunks[0].1.max(2) * 2);
                        out.extend(rng.bytes(l));
                        continue;
                    }
                    let idx = match mode {
                        0 => rng.usize_below(chunks.len()),
                        1 => chunks.len() - 1 - (i % chunks.len()), // reversed
                        2 => (i + 1) % chunks.len(),               // rotated
                        _ => {
                            // mostly in place, some swapped
                            if rng.chance(1, 3) { rng.usize_below(chunks.len()) } else { i % chunks.len() }
                        }
                    };
                    let (o, l) = chunks[idx];
                    out.extend_from_slice(&source[o..o + l]);
                }
                out
            }
            Derive::SameSizeOther(s) => {
                let mut rng = Rng::new(*s);
                let mut out = source.to_vec();
                let k = rng.urange(2, 4);
                for (i, (o, l)) in r1::chunk(cfg, source).into_iter().enumerate() {
                    if i % k == 0 {
                        let junk = rng.bytes(l);
                        out[o..o + l].copy_from_slice(&junk);
                    }
                }
                out
            }
        }
    }
}

#[derive(Clone, Debug)]
pub struct Scenario {
    pub src_seed: u64,
    pub src_class: SrcClass,
    pub src_len: usize,
    pub cfg: Cfg,
    pub comp: Comp,
    pub hash_len: usize,
    pub out_kind: OutKind,
    pub prior: Option<Derive>,
    /// Extra bytes appended to the prior so that a block device is large enough.
    pub seeds: Vec<Derive>,
    pub stdin_seed: Option<Derive>,
    pub http: bool,
    pub buffered: Option<usize>,
    pub verify_output: bool,
}

impl Scenario {
    pub fn source(&self) -> Vec<u8> {
        gen::gen_source(&mut Rng::new(self.src_seed), self.src_class, self.src_len)
    }
    pub fn to_json(&self) -> Value {
        json!({
            "src": [self.src_seed, class_name(self.src_class), self.src_len],
            "cfg": super::c09::cfg_json(&self.cfg),
            "comp": self.comp.describe(),
            "hash_len": self.hash_len,
            "out_kind": self.out_kind.name(),
            "prior": self.prior.as_ref().map(|d| d.to_json()),
            "seeds": self.seeds.iter().map(|d| d.to_json()).collect::<Vec<_>>(),
            "stdin_seed": self.stdin_seed.as_ref().map(|d| d.to_json()),
            "http": self.http,
            "buffered": self.buffered,
            "verify_output": self.verify_output,
        })
    }
    pub fn from_json(v: &Value) -> Scenario {
        let comp_s = v["comp"].as_str().unwrap();
        let comp = if comp_s == "none" {
            Comp::None
        } else {
            let (f, l) = comp_s.split_once('-').unwrap();
            let l: u32 = l.parse().unwrap();
            match f {
                "brotli" => Comp::Brotli(l),
                "zstd" => Comp::Zstd(l),
                _ => Comp::Lzma(l),
            }
        };
        Scenario {
            src_seed: v["src"][0].as_u64().unwrap(),
            src_class: class_from(v["src"][1].as_str().unwrap()),
            src_len: v["src"][2].as_u64().unwrap() as usize,
            cfg: super::c09::cfg_from(&v["cfg"]),
            comp,
            hash_len: v["hash_len"].as_u64().unwrap() as usize,
            out_kind: OutKind::from_name(v["out_kind"].as_str().unwrap()),
            prior: if v["prior"].is_null() { None } else { Some(Derive::from_json(&v["prior"])) },
            seeds: v["seeds"].as_array().unwrap().iter().map(Derive::from_json).collect(),
            stdin_seed: if v["stdin_seed"].is_null() { None } else { Some(Derive::from_json(&v["stdin_seed"])) },
            http: v["http"].as_bool().unwrap_or(false),
            buffered: v["buffered"].as_u64().map(|x| x as usize),
            verify_output: v["verify_output"].as_bool().unwrap_or(false),
        }
    }
    pub fn key(&self) -> String {
        format!(
            "{}/{:?}/h{}/{}/prior={}/seeds={}{}/{}",
            class_name(self.src_class),
            self.cfg.algo,
            self.hash_len,
            self.out_kind.name(),
            self.prior.as_ref().map(|d| d.name()).unwrap_or_else(|| "-".into()),
            self.seeds.iter().map(|d| d.name()).collect::<Vec<_>>().join("+"),
            if self.stdin_seed.is_some() { "+stdin" } else { "" },
            if self.http { "http" } else { "local" }
        )
    }
}

fn gen_derive(rng: &mut Rng) -> Derive {
    match rng.below(10) {
        0 | 1 | 2 => Derive::ChunkShuffle(rng.next_u64()),
        3 => Derive::SameSizeOther(rng.next_u64()),
        _ => Derive::Edit(*rng.pick(&gen::EDITS), rng.next_u64()),
    }
}

/// Which parts of the scenario space to emphasise.
#[derive(Clone, Copy, Debug, PartialEq, Eq)]
pub enum Focus {
    Seeds,
    InPlace,
    Mixed,
}

pub fn gen_scenario(rng: &mut Rng, focus: Focus, http_share: (u64, u64), allow_blockdev: bool) -> Scenario {
    // Configs that give a 4–60 KiB source tens of chunks.
    let cfg = match rng.below(5) {
        0 => Cfg::fixed(rng.urange(50, 3000)),
        _ => {
            let algo = if rng.chance(1, 2) { Algo::RollSum } else { Algo::BuzHash };
            let bits = rng.range(5, 10) as u32;
            let avg = 1usize << (bits + 1);
            let window = *rng.pick(&[4usize, 8, 16, 32, 64]);
            let min = match rng.below(3) {
                0 => 0,
                1 => window.min(avg),
                _ => rng.urange(0, avg),
            };
            let max = avg.max(window) + rng.urange(0, avg * 4);
            Cfg { algo, window, min, max, bits }
        }
    };
    let src_class = *rng.pick(&[
        SrcClass::Random,
        SrcClass::Random,
        SrcClass::BlockRepetitive,
        SrcClass::ZeroRuns,
        SrcClass::LowEntropy,
    ]);
    let src_len = match rng.below(8) {
        0 => rng.urange(0, 300),
        _ => rng.urange(1000, 50_000),
    };
    let out_kind = match focus {
        Focus::Seeds => match rng.below(12) {
            0 | 1 => OutKind::Force,
            // seeds combined with an in-place update of an existing output
            2 | 3 | 4 => OutKind::InPlace,
            _ => OutKind::New,
        },
        Focus::InPlace => {
            if allow_blockdev && rng.chance(1, 4) { OutKind::BlockDev } else { OutKind::InPlace }
        }
        Focus::Mixed => match rng.below(6) {
            0 | 1 => OutKind::New,
            2 | 3 => OutKind::InPlace,
            4 => {
                if allow_blockdev { OutKind::BlockDev } else { OutKind::InPlace }
            }
            _ => OutKind::Force,
        },
    };
    let prior = match out_kind {
        OutKind::New => None,
        _ => Some(gen_derive(rng)),
    };
    let nseeds = match focus {
        Focus::Seeds => rng.urange(1, 4),
        Focus::InPlace => {
            if rng.chance(1, 3) { rng.urange(1, 2) } else { 0 }
        }
        Focus::Mixed => rng.urange(0, 3),
    };
    let seeds = (0..nseeds).map(|_| gen_derive(rng)).collect();
    let stdin_seed = if rng.chance(1, 4) { Some(gen_derive(rng)) } else { None };
    Scenario {
        src_seed: rng.next_u64(),
        src_class,
        src_len,
        cfg,
        comp: gen::gen_comp(rng, true),
        hash_len: *rng.pick(&[4usize, 6, 8, 16, 32, 64]),
        out_kind,
        prior,
        seeds,
        stdin_seed,
        http: rng.chance(http_share.0, http_share.1),
        buffered: *rng.pick(&[None, Some(1), Some(2), Some(8)]),
        // `--verify-output` hashes a block device up to its end, not up to the source
        // length, so it can only succeed when the device is exactly as large as the
        // source; that is outside the given properties (DESIGN.md, observations).
        verify_output: out_kind != OutKind::BlockDev && rng.chance(1, 6),
    }
}

pub struct Built {
    pub source: Vec<u8>,
    pub arch: Arch,
    pub prior: Option<Vec<u8>>,
    pub seeds: Vec<Vec<u8>>,
    pub stdin_seed: Option<Vec<u8>>,
    pub pred: Prediction,
    pub out_path: PathBuf,
    pub seed_paths: Vec<PathBuf>,
}

/// Build the scenario's files. Err(reason) = inconclusive (could not build / collision).
pub fn build(dir: &Path, sc: &Scenario) -> Result<Built, String> {
    let source = sc.source();
    let mut cspec = CompressSpec::new(sc.cfg, sc.comp, sc.hash_len);
    // How the archive came to be (source on stdin or -i FILE, --buffered-chunks of the
    // compress) must not matter to any clone-side property; derived from the source seed
    // so that a scenario replays identically.
    if sc.src_seed % 4 == 1 {
        cspec.stdin = Some(sc.src_seed | 1);
    }
    cspec.buffered = [None, Some(1), Some(2), Some(16)][((sc.src_seed >> 3) % 4) as usize];
    let arch = scn::make_archive(dir, "a", &source, &cspec)?;
    let mut prior = sc.prior.as_ref().map(|d| d.apply(&source, &sc.cfg));
    if sc.out_kind == OutKind::BlockDev {
        // A device is at least as large as the source.
        let p = prior.get_or_insert_with(Vec::new);
        if p.len() < source.len() {
            let mut rng = Rng::new(sc.src_seed ^ 0xb10c);
            let pad = rng.urange(0, 4096);
            let extra = rng.bytes(source.len() - p.len() + pad);
            p.extend(extra);
        }
    }
    let seeds: Vec<Vec<u8>> = sc.seeds.iter().map(|d| d.apply(&source, &sc.cfg)).collect();
    let stdin_seed = sc.stdin_seed.as_ref().map(|d| d.apply(&source, &sc.cfg));
    // Collision guard.
    let mut streams: Vec<&[u8]> = seeds.iter().map(|s| &s[..]).collect();
    if let Some(s) = &stdin_seed {
        streams.push(s);
    }
    let uses_prior = matches!(sc.out_kind, OutKind::InPlace | OutKind::BlockDev);
    if uses_prior {
        if let Some(p) = &prior {
            streams.push(p);
        }
    }
    if arch.model.has_collision(&source, &streams) {
        return Err("truncated-hash collision in generated scenario".into());
    }
    let mut order: Vec<&[u8]> = Vec::new();
    if let Some(s) = &stdin_seed {
        order.push(s);
    }
    for s in &seeds {
        order.push(s);
    }
    let pred = arch
        .model
        .predict(if uses_prior { prior.as_deref() } else { None }, &order);
    let out_path = dir.join("out.bin");
    let mut seed_paths = Vec::new();
    for (i, s) in seeds.iter().enumerate() {
        let p = dir.join(format!("seed{}.bin", i));
        std::fs::write(&p, s).map_err(|e| e.to_string())?;
        seed_paths.push(p);
    }
    Ok(Built {
        source,
        arch,
        prior,
        seeds,
        stdin_seed,
        pred,
        out_path,
        seed_paths,
    })
}

/// Put the output path into its initial state for a run.
pub fn prepare_output(b: &Built, sc: &Scenario) {
    let _ = std::fs::remove_file(&b.out_path);
    if sc.out_kind != OutKind::New {
        std::fs::write(&b.out_path, b.prior.as_deref().unwrap_or(&[])).expect("write prior");
    }
}

/// Server script that answers correctly but paces the body: mode 0 = one piece, 1 = pieces
/// aligned to the stored chunk boundaries inside the requested range, 2 = small random
/// pieces, 3 = first piece exactly one chunk then the rest.
pub fn pacing_script(model: &crate::refimpl::model::Model, mode: u8, seed: u64) -> httpd::Script {
    let mut bounds: Vec<(u64, u64)> = (0..model.parsed.dict.descs.len())
        .map(|i| {
            let (o, l) = model.desc_abs(i);
            (o, o + l as u64)
        })
        .collect();
    bounds.sort();
    Arc::new(move |req, _f| {
        let Some((a, b)) = req.range else { return httpd::Action::Full };
        match mode {
            0 => httpd::Action::Full,
            1 | 3 => {
                let mut sizes: Vec<usize> = Vec::new();
                let mut pos = a;
                for &(s, e) in &bounds {
                    if e <= a || s > b {
                        continue;
                    }
                    let end = e.min(b + 1);
                    if end > pos {
                        sizes.push((end - pos) as usize);
                        pos = end;
                    }
                }
                if pos <= b {
                    sizes.push((b + 1 - pos) as usize);
                }
                if mode == 3 && sizes.len() > 1 {
                    let first = sizes[0];
                    sizes = vec![first, (b + 1 - a) as usize];
                }
                if sizes.is_empty() {
                    httpd::Action::Full
                } else {
                    // Fragmented() cycles through the list; the last entry covers the rest.
                    sizes.push(usize::MAX / 2);
                    httpd::Action::Fragmented(sizes)
                }
            }
            _ => {
                let mut rng = Rng::new(seed ^ req.n);
                httpd::Action::Fragmented((0..6).map(|_| rng.urange(1, 700)).collect())
            }
        }
    })
}

#[derive(Default, Clone, Debug)]
pub struct Faults {
    /// How the (well-behaved) server paces its bodies, see `pacing_script`.
    pub pacing: u8,
    pub fault: Option<String>,
    pub trunc_fault: Option<String>,
    /// Fail the k-th read of the OUTPUT file once: "0,<k>,<errno>".
    pub read_fault: Option<String>,
    /// The server ends the body of request number n (>= 2: chunk data) after k bytes, once;
    /// the clone runs with --http-retry-count 3.
    pub cut: Option<(u64, usize)>,
    pub rlimit_fsize: Option<u64>,
    pub hook_delay: Option<String>,
    pub release: bool,
}

pub struct CloneObs {
    pub exit: Exit,
    pub output: Option<Vec<u8>>,
    pub writes: Vec<(u64, Vec<u8>)>,
    pub write_calls: usize,
    pub truncs: Vec<u64>,
    pub requests: Vec<ReqLog>,
    pub shim: Vec<Rec>,
    pub shim_ok: bool,
    pub tail: String,
    pub fault_fired: bool,
    /// see proc::Outcome::idle_hang
    pub idle_hang: bool,
}

pub fn clone_spec(b: &Built, sc: &Scenario, archive: String) -> CloneSpec {
    CloneSpec {
        archive,
        output: b.out_path.clone(),
        seeds: b.seed_paths.clone(),
        stdin_seed: b.stdin_seed.is_some(),
        seed_output: matches!(sc.out_kind, OutKind::InPlace | OutKind::BlockDev),
        // --force-create alone replaces an existing file; given together with --seed-output
        // (a third of the in-place scenarios) it must change nothing about the in-place update.
        force: sc.out_kind == OutKind::Force || (matches!(sc.out_kind, OutKind::InPlace | OutKind::BlockDev) && (sc.src_seed >> 17) % 3 == 0),
        verify_output: sc.verify_output,
        verify_header: None,
        buffered: sc.buffered,
        retries: None,
        verbose: false,
        // Options that must not change what is fetched or written when nothing goes wrong:
        // a generous timeout, a retry budget, a custom header, verbosity.
        extra: {
            let mut e = Vec::new();
            let k = sc.src_seed >> 11;
            if k % 3 == 1 {
                e.extend(["--http-timeout".to_string(), "600".to_string()]);
            }
            if k % 4 == 2 {
                e.extend(["--http-retry-count".to_string(), "2".to_string(), "--http-retry-delay".to_string(), "1".to_string()]);
            }
            if k % 5 == 3 {
                e.extend(["--http-header".to_string(), "X-Verif: 1".to_string()]);
            }
            if k % 7 == 4 {
                e.push("-vv".to_string());
            }
            e
        },
    }
}

/// Run the clone of a built scenario (output must have been prepared).
pub fn run_clone(dir: &Path, b: &Built, sc: &Scenario, tag: &str, faults: &Faults) -> CloneObs {
    let server = if sc.http {
        let inner = pacing_script(&b.arch.model, faults.pacing, sc.src_seed);
        let script: httpd::Script = match faults.cut {
            Some((n, k)) => Arc::new(move |req, f| if req.n == n { httpd::Action::CutAfter(k) } else { inner(req, f) }),
            None => inner,
        };
        Some(Server::start(Arc::new(b.arch.bytes.clone()), script))
    } else {
        None
    };
    let archive = match &server {
        Some(s) => s.url(),
        None => proc::p(&b.arch.path),
    };
    let mut spec = clone_spec(b, sc, archive);
    if faults.cut.is_some() {
        spec.retries = Some(3);
        spec.extra.retain(|a| a != "--http-retry-count" && a != "2");
    }
    // One scenario in six delivers its first seed through a named pipe (`--seed <(...)`,
    // a device node: st_size 0, not seekable) instead of a regular file.
    let mut fifo_feeder: Option<(std::sync::Arc<std::sync::atomic::AtomicBool>, std::thread::JoinHandle<()>)> = None;
    if sc.src_seed % 6 == 2 && !spec.seeds.is_empty() {
        let fifo = dir.join(format!("{}.seed0.fifo", tag));
        let _ = std::fs::remove_file(&fifo);
        let c = std::ffi::CString::new(fifo.to_string_lossy().as_bytes()).unwrap();
        if unsafe { libc::mkfifo(c.as_ptr(), 0o600) } == 0 {
            let data = b.seeds[0].clone();
            let stop = std::sync::Arc::new(std::sync::atomic::AtomicBool::new(false));
            let stop2 = stop.clone();
            let h = std::thread::spawn(move || {
                use std::io::Write;
                use std::os::unix::io::FromRawFd;
                // Non-blocking open fails with ENXIO until the clone has opened the pipe for
                // reading; give up when the run is over.
                loop {
                    let fd = unsafe { libc::open(c.as_ptr(), libc::O_WRONLY | libc::O_NONBLOCK | libc::O_CLOEXEC) };
                    if fd >= 0 {
                        unsafe {
                            let fl = libc::fcntl(fd, libc::F_GETFL);
                            libc::fcntl(fd, libc::F_SETFL, fl & !libc::O_NONBLOCK);
                        }
                        let mut f = unsafe { std::fs::File::from_raw_fd(fd) };
                        let _ = f.write_all(&data);
                        return;
                    }
                    if stop2.load(std::sync::atomic::Ordering::Relaxed) {
                        return;
                    }
                    std::thread::sleep(std::time::Duration::from_millis(2));
                }
            });
            spec.seeds[0] = fifo;
            fifo_feeder = Some((stop, h));
        }
    }
    let mut run = Run::new(dir, tag, scn::clone_args(&spec));
    run.watch = vec![b.out_path.clone(), b.arch.path.clone()];
    run.log_reads = true;
    // One scenario in five spells its paths relative to the working directory.
    if (sc.src_seed >> 21) % 5 == 0 {
        run.relativize_args(((sc.src_seed >> 24) % 2) as u8);
    }
    if let Some(s) = &b.stdin_seed {
        run.stdin = Some((s.clone(), sc.src_seed | 1));
    }
    if sc.out_kind == OutKind::BlockDev {
        run.blockdev = Some(b.out_path.clone());
    }
    run.fault = faults.fault.clone();
    run.trunc_fault = faults.trunc_fault.clone();
    run.read_fault = faults.read_fault.clone();
    // One scenario in seven runs pinned to a single CPU (default pipeline widths become 1).
    if sc.src_seed % 7 == 3 {
        run.one_cpu = Some((sc.src_seed >> 8) as usize);
    }
    run.rlimit_fsize = faults.rlimit_fsize;
    run.hook_delay = faults.hook_delay.clone();
    if faults.release {
        run.bin = proc::Bin::Release;
    }
    let o: Outcome = proc::run(&run);
    if let Some((stop, h)) = fifo_feeder {
        stop.store(true, std::sync::atomic::Ordering::Relaxed);
        // A feeder blocked in write() is released by draining the pipe from our side.
        if !h.is_finished() {
            if let Ok(f) = std::fs::OpenOptions::new().read(true).custom_flags(libc::O_NONBLOCK).open(&spec.seeds[0]) {
                use std::io::Read;
                let mut f = f;
                let mut buf = vec![0u8; 1 << 16];
                let t0 = std::time::Instant::now();
                while !h.is_finished() && t0.elapsed().as_secs() < 5 {
                    let _ = f.read(&mut buf);
                    std::thread::sleep(std::time::Duration::from_millis(1));
                }
            }
        }
        let _ = h.join();
        let _ = std::fs::remove_file(&spec.seeds[0]);
    }
    let requests = server.as_ref().map(|s| s.take_log()).unwrap_or_default();
    drop(server);
    let writes = proc::writes_to(&o.shim, 0);
    let write_calls = o
        .shim
        .iter()
        .filter(|r| r.widx == 0 && (r.kind == K_WRITE || r.kind == K_PWRITE))
        .count();
    let truncs = o
        .shim
        .iter()
        .filter(|r| r.widx == 0 && r.kind == K_FTRUNCATE && r.ret == 0)
        .map(|r| r.off as u64)
        .collect();
    let fault_fired = o.shim.iter().any(|r| r.kind == proc::K_FAULT);
    let idle_hang = o.idle_hang();
    CloneObs {
        exit: o.exit,
        output: std::fs::read(&b.out_path).ok(),
        writes,
        write_calls,
        truncs,
        requests,
        tail: o.tail(),
        shim_ok: o.shim_ok,
        shim: o.shim,
        fault_fired,
        idle_hang,
    }
}

/// What the output must look like after a successful clone.
pub fn expected_output(b: &Built, sc: &Scenario) -> Vec<u8> {
    if sc.out_kind == OutKind::BlockDev {
        // Not resized: bytes beyond the source keep their prior content.
        let mut v = b.source.clone();
        if let Some(p) = &b.prior {
            if p.len() > v.len() {
                v.extend_from_slice(&p[v.len()..]);
            }
        }
        v
    } else {
        b.source.clone()
    }
}

// ---------------------------------------------------------------------------
// Oracles

/// True when the clone did not report success (the conditional properties C02 / C13 /
/// C06 / C07 say nothing about such a run; C01, C03 and C05 do).
pub fn failed(o: &CloneObs) -> Option<String> {
    if o.exit.ok() {
        None
    } else {
        Some(format!("clone of a valid archive failed: {} :: {}", o.exit.describe(), o.tail))
    }
}

/// C02/C03 final-content oracle.
pub fn judge_final(b: &Built, sc: &Scenario, o: &CloneObs) -> Result<(), String> {
    if let Some(f) = failed(o) {
        return Err(f);
    }
    let want = expected_output(b, sc);
    match &o.output {
        None => Err("clone reported success but there is no output file".into()),
        Some(out) => match crate::util::first_diff(out, &want) {
            None => Ok(()),
            Some(i) => Err(format!(
                "output differs from the source: output {} bytes, expected {} bytes, first difference at byte {}",
                out.len(),
                want.len(),
                i
            )),
        },
    }
}

/// C06 oracle over the server's Range log.
/// Under a transfer fault with retries the same bytes may be asked for again, but never
/// anything else: every requested byte belongs to the header or to a chunk that must be
/// fetched.
pub fn judge_requests_subset(b: &Built, o: &CloneObs) -> Result<(), String> {
    let m = &b.arch.model;
    let hdr_end = m.parsed.header_len as u64;
    let mut allowed: Vec<(u64, u64)> = vec![(0, hdr_end - 1)];
    for &(s, l) in &b.pred.fetch_ranges {
        if l > 0 {
            allowed.push((s, s + l as u64 - 1));
        }
    }
    allowed.sort();
    let mut merged: Vec<(u64, u64)> = Vec::new();
    for (a, e) in allowed {
        match merged.last_mut() {
            Some(last) if a <= last.1 + 1 => last.1 = last.1.max(e),
            _ => merged.push((a, e)),
        }
    }
    for r in &o.requests {
        let Some((a, e)) = r.req.range else {
            return Err(format!("request {} without a Range header (whole archive requested)", r.req.n));
        };
        if !merged.iter().any(|(x, y)| *x <= a && e <= *y) {
            return Err(format!(
                "request #{} asks for bytes {}-{}, which are not all header or stored data of chunks that must be fetched (a resumed transfer must ask only for what is still missing)",
                r.req.n, a, e
            ));
        }
    }
    Ok(())
}

pub fn judge_requests(b: &Built, o: &CloneObs) -> Result<(), String> {
    let m = &b.arch.model;
    let hdr_end = m.parsed.header_len as u64;
    let mut want: Vec<(u64, u64)> = vec![(0, 13), (14, hdr_end - 1)];
    let header_reqs = want.clone();
    for &(s, l) in &b.pred.fetch_ranges {
        if l > 0 {
            want.push((s, s + l as u64 - 1));
        }
    }
    // Coverage multiset of requested bytes, per request.
    let mut got: Vec<(u64, u64)> = Vec::new();
    for r in &o.requests {
        match r.req.range {
            Some(x) => got.push(x),
            None => return Err(format!("request {} without a Range header (whole archive requested)", r.req.n)),
        }
    }
    // 1. header region read exactly by the two header requests
    for h in &header_reqs {
        if got.iter().filter(|g| *g == h).count() != 1 {
            return Err(format!("header request {:?} seen {} times", h, got.iter().filter(|g| *g == h).count()));
        }
    }
    // 2. chunk data: every requested byte belongs to a chunk that must be fetched, and
    //    every such chunk is covered exactly once.
    let data_reqs: Vec<(u64, u64)> = got.iter().copied().filter(|g| !header_reqs.contains(g)).collect();
    let mut cover: std::collections::BTreeMap<u64, i64> = std::collections::BTreeMap::new();
    for &(a, e) in &data_reqs {
        *cover.entry(a).or_insert(0) += 1;
        *cover.entry(e + 1).or_insert(0) -= 1;
    }
    let count_at = |pos: u64| -> i64 {
        let mut c = 0;
        for (k, v) in &cover {
            if *k > pos {
                break;
            }
            c += v;
        }
        c
    };
    for &(s, l) in &b.pred.fetch_ranges {
        if l == 0 {
            continue;
        }
        for pos in [s, s + l as u64 - 1] {
            let c = count_at(pos);
            if c != 1 {
                return Err(format!(
                    "stored range {}+{} of a missing chunk was requested {} times (expected once)",
                    s, l, c
                ));
            }
        }
    }
    let want_bytes: u64 = b.pred.fetch_ranges.iter().map(|x| x.1 as u64).sum();
    let got_bytes: u64 = data_reqs.iter().map(|(a, e)| e - a + 1).sum();
    if got_bytes != want_bytes {
        // Find a requested chunk that should not have been fetched.
        let fetch: std::collections::BTreeSet<usize> = b.pred.fetch.iter().copied().collect();
        for i in 0..m.parsed.dict.descs.len() {
            if fetch.contains(&i) {
                continue;
            }
            let (s, l) = m.desc_abs(i);
            if l > 0 && count_at(s) > 0 {
                return Err(format!(
                    "chunk descriptor {} (stored at {}+{}) was requested although it is available from seeds/prior output; {} chunk-data bytes requested, {} expected",
                    i, s, l, got_bytes, want_bytes
                ));
            }
        }
        return Err(format!("{} chunk-data bytes requested, {} expected", got_bytes, want_bytes));
    }
    Ok(())
}

/// C07 oracle: ordered chunk-data requests == maximal runs.
pub fn judge_runs(b: &Built, o: &CloneObs) -> Result<(), String> {
    let hdr_end = b.arch.model.parsed.header_len as u64;
    let header_reqs = [(0u64, 13u64), (14, hdr_end - 1)];
    let got: Vec<(u64, u64)> = o
        .requests
        .iter()
        .filter_map(|r| r.req.range)
        .filter(|g| !header_reqs.contains(g))
        .collect();
    if got != b.pred.requests {
        let i = got.iter().zip(b.pred.requests.iter()).position(|(a, b)| a != b).unwrap_or(got.len().min(b.pred.requests.len()));
        return Err(format!(
            "chunk-data request #{} is {:?}, expected {:?} ({} requests seen, {} maximal runs expected)",
            i,
            got.get(i),
            b.pred.requests.get(i),
            got.len(),
            b.pred.requests.len()
        ));
    }
    Ok(())
}

#[derive(Default, Debug)]
pub struct WriteStats {
    pub bytes_written: u64,
    pub locations_written: usize,
    pub in_place_locations: usize,
}

/// C13 oracle, byte level (robust to write splitting): only source bytes at their
/// position, nothing at/after source length, no position twice, nothing inside an
/// in-place location, written locations complete.
pub fn judge_writes(b: &Built, sc: &Scenario, o: &CloneObs) -> Result<WriteStats, String> {
    let n = b.source.len();
    let mut written = vec![0u8; n];
    let uses_prior = matches!(sc.out_kind, OutKind::InPlace | OutKind::BlockDev);
    let mut in_place = vec![false; n];
    if uses_prior {
        for &(off, len) in &b.pred.in_place {
            for x in in_place.iter_mut().skip(off as usize).take(len) {
                *x = true;
            }
        }
    }
    let mut st = WriteStats {
        in_place_locations: if uses_prior { b.pred.in_place.len() } else { 0 },
        ..Default::default()
    };
    for (wi, (off, data)) in o.writes.iter().enumerate() {
        for (j, byte) in data.iter().enumerate() {
            let pos = *off as usize + j;
            if pos >= n {
                return Err(format!("write #{} puts a byte at position {} >= source length {}", wi, pos, n));
            }
            if *byte != b.source[pos] {
                return Err(format!("write #{} at offset {} puts a byte that is not the source's at position {}", wi, off, pos));
            }
            if in_place[pos] {
                return Err(format!("write #{} at offset {} touches position {} inside a location already holding the right chunk", wi, off, pos));
            }
            if written[pos] != 0 {
                return Err(format!("write #{} at offset {} writes position {} a second time", wi, off, pos));
            }
            written[pos] = 1;
        }
        st.bytes_written += data.len() as u64;
    }
    // Whole locations only.
    for c in &b.arch.model.src_chunks {
        let s = c.off as usize;
        let cnt: usize = written[s..s + c.len].iter().map(|x| *x as usize).sum();
        if cnt != 0 && cnt != c.len {
            return Err(format!("chunk location {}+{} was written partially ({} bytes)", c.off, c.len, cnt));
        }
        if cnt != 0 {
            st.locations_written += 1;
        }
    }
    Ok(st)
}

/// Truncated-hash near-collision: two different `n`-byte blocks whose Blake2 agrees on
/// the first `k` bytes (birthday search).
pub fn near_collision(seed: u64, n: usize, k: usize) -> Option<(Vec<u8>, Vec<u8>)> {
    let mut rng = Rng::new(seed);
    let mut seen: std::collections::HashMap<Vec<u8>, Vec<u8>> = std::collections::HashMap::new();
    let limit = 1usize << (4 * k + 4);
    for _ in 0..limit {
        let blk = rng.bytes(n);
        let h = b2(&blk)[..k].to_vec();
        if let Some(prev) = seen.get(&h) {
            if *prev != blk {
                return Some((prev.clone(), blk));
            }
        }
        seen.insert(h, blk);
    }
    None
}
