//! C14 — a refused operation leaves the output untouched.
//!
//! Monitor: exit status of the real CLI and a snapshot (existence, length, content) of
//! the output path and of its directory listing before / after. Workload: the full
//! matrix {output absent, regular file, block device (hook; real loop device when
//! available)} x {none, --force-create, --seed-output, both} x {valid archive, bad
//! magic, bad header checksum, truncated header, --verify-header mismatch} x {local,
//! HTTP} for clone, {absent, present} x {none, --force-create} for compress; the
//! non-refusal cells must succeed with the right output, so that "refuse everything"
//! is not green.
use crate::evidence::{Report, Tier};
use crate::gen::{self, Comp};
use crate::httpd::{self, Server};
use crate::proc::{self, p, s, Exit, Run};
use crate::refimpl::chunker::Cfg;
use crate::refimpl::codec;
use crate::scn::{self, CloneSpec, CompressSpec};
use crate::util::{hex, par_map, Rng};
use serde_json::{json, Value};
use std::sync::Arc;

#[derive(Clone, Copy, Debug, PartialEq, Eq)]
enum OutState {
    Absent,
    /// Regular file: content class 0 random short, 1 == source, 2 longer, 3 empty
    Regular(u8),
    /// Block device via hook: size relation -1 smaller, 0 equal, 1 larger
    BlockDev(i8),
    /// The output path is a dangling symbolic link (target does not exist).
    DanglingSymlink,
    /// The output path is absent when bita starts but is created by somebody else while
    /// bita is still fetching the archive header (HTTP only).
    AppearsDuringHeaderFetch,
}

#[derive(Clone, Copy, Debug, PartialEq, Eq)]
enum ArchKind {
    Valid,
    BadMagic,
    BadChecksum,
    TruncatedHeader,
    TruncatedToPreHeader,
    VerifyHeaderMismatch,
    VerifyHeaderMatch,
    /// Valid framing and header checksum, but the dictionary is invalid: a compression id
    /// no version defines / a rebuild index beyond the descriptors / no chunker parameters.
    InvalidDictionary(u8),
}

#[derive(Clone, Copy, Debug)]
struct Cell {
    out: OutState,
    force: bool,
    seed_output: bool,
    arch: ArchKind,
    http: bool,
    /// `--seed` arguments: 0 none, 1 an unrelated seed file, 2 the OUTPUT path itself,
    /// 3 both. Seeds never turn a refusal into permission.
    seeds: u8,
}

impl Cell {
    fn name(&self) -> String {
        format!(
            "{:?}/force={}/seed_output={}/{:?}/{}{}",
            self.out,
            self.force,
            self.seed_output,
            self.arch,
            if self.http { "http" } else { "local" },
            ["", "/seed=file", "/seed=OUTPUT", "/seed=file+OUTPUT"][self.seeds as usize]
        )
    }
    /// (refusal expected, header/archive refusal)
    fn expectation(&self) -> (bool, bool) {
        let archive_refusal = !matches!(self.arch, ArchKind::Valid | ArchKind::VerifyHeaderMatch);
        if archive_refusal {
            return (true, true);
        }
        match self.out {
            OutState::Absent => (false, false),
            // O_CREAT|O_EXCL refuses a symlink, dangling or not; with --force-create /
            // --seed-output the link is followed and its target created.
            OutState::DanglingSymlink => (!self.force && !self.seed_output, false),
            OutState::AppearsDuringHeaderFetch => (!self.force && !self.seed_output, false),
            OutState::Regular(_) => (!self.force && !self.seed_output, false),
            OutState::BlockDev(rel) => {
                if !self.force && !self.seed_output {
                    (true, false)
                } else {
                    (rel < 0, false)
                }
            }
        }
    }
}

fn all_cells() -> Vec<Cell> {
    let outs = [
        OutState::Absent,
        OutState::Regular(0),
        OutState::Regular(1),
        OutState::Regular(2),
        OutState::Regular(3),
        OutState::BlockDev(-1),
        OutState::BlockDev(0),
        OutState::BlockDev(1),
        OutState::DanglingSymlink,
        OutState::AppearsDuringHeaderFetch,
    ];
    let archs = [
        ArchKind::Valid,
        ArchKind::BadMagic,
        ArchKind::BadChecksum,
        ArchKind::TruncatedHeader,
        ArchKind::TruncatedToPreHeader,
        ArchKind::VerifyHeaderMismatch,
        ArchKind::VerifyHeaderMatch,
        ArchKind::InvalidDictionary(0),
        ArchKind::InvalidDictionary(1),
        ArchKind::InvalidDictionary(2),
    ];
    let mut v = Vec::new();
    for out in outs {
        for (force, seed_output) in [(false, false), (true, false), (false, true), (true, true)] {
            for arch in archs {
                for http in [false, true] {
                    if out == OutState::AppearsDuringHeaderFetch && !http {
                        continue;
                    }
                    v.push(Cell { out, force, seed_output, arch, http, seeds: 0 });
                }
            }
        }
    }
    // Seeds given as well: an existing output without --force-create / --seed-output is
    // refused whatever the seeds are (including the output itself named as a seed);
    // an absent output with a seed file behaves as without.
    for out in [OutState::Regular(0), OutState::Regular(1), OutState::Regular(2), OutState::Absent] {
        for arch in archs {
            for http in [false, true] {
                for seeds in [1u8, 2, 3] {
                    if out == OutState::Absent && seeds != 1 {
                        continue;
                    }
                    v.push(Cell { out, force: false, seed_output: false, arch, http, seeds });
                }
            }
        }
    }
    v
}

fn listing(dir: &std::path::Path) -> Vec<String> {
    let mut v: Vec<String> = std::fs::read_dir(dir)
        .map(|rd| rd.filter_map(|e| e.ok()).map(|e| e.file_name().to_string_lossy().to_string()).collect())
        .unwrap_or_default();
    v.sort();
    v
}

fn clone_cell(rep: &Report, idx: usize, cell: &Cell, seed: u64) -> Option<String> {
    let mut rng = Rng::new(seed).fork(idx as u64);
    let dir = scn::case_dir("C14", idx);
    let res = (|| -> Result<(), String> {
        let n = rng.urange(64, 300);
        let src_len = rng.urange(600, 4000);
        let mut source = gen::gen_source(&mut rng, gen::SrcClass::BlockRepetitive, src_len);
        let mut unique_sum = source.len();
        if matches!(cell.out, OutState::BlockDev(_)) {
            // chunk-aligned repeats: the source is longer than the sum of its distinct chunks
            let k = rng.urange(2, 4);
            let blocks: Vec<Vec<u8>> = (0..k).map(|_| rng.bytes(n)).collect();
            let count = rng.urange(k + 2, k + 8);
            source = Vec::new();
            for i in 0..count {
                let b = if i < k { &blocks[i] } else { &blocks[rng.usize_below(k)] };
                source.extend_from_slice(b);
            }
            let tail = rng.urange(0, n - 1);
            source.extend(rng.bytes(tail));
            unique_sum = k * n + tail;
        }
        let arch = match scn::make_archive(&dir, "a", &source, &CompressSpec::new(Cfg::fixed(n), *rng.pick(&[Comp::None, Comp::Brotli(3)]), 64)) {
            Ok(a) => a,
            Err(_) => {
                rep.inconclusive("archive build");
                return Ok(());
            }
        };
        let hl = arch.model.parsed.header_len;
        let mut abytes = arch.bytes.clone();
        let mut verify: Option<String> = None;
        match cell.arch {
            ArchKind::Valid => {}
            ArchKind::BadMagic => {
                if rng.chance(1, 2) {
                    abytes[rng.usize_below(6)] ^= 0x20;
                } else {
                    // only the padding byte of the magic differs ("BITA1\x01", "2BITA1"), and the
                    // header checksum is recomputed over it: still not an archive
                    let legacy = abytes[0] == 0;
                    let k = if legacy { 0 } else { 5 };
                    abytes[k] = *rng.pick(&[1u8, b'2', 0xff, b' ']);
                    let sum = crate::util::b2(&abytes[..hl - 64]);
                    abytes[hl - 64..hl].copy_from_slice(&sum);
                }
            }
            ArchKind::BadChecksum => {
                let k = hl - 64 + rng.usize_below(64);
                abytes[k] ^= 1 << rng.below(8);
            }
            ArchKind::TruncatedHeader => abytes.truncate(rng.urange(15, hl - 1)),
            ArchKind::TruncatedToPreHeader => abytes.truncate(rng.urange(0, 14)),
            ArchKind::VerifyHeaderMismatch => {
                let mut s = arch.model.parsed.header_checksum;
                s[rng.usize_below(64)] ^= 1 << rng.below(8);
                verify = Some(hex(&s));
                // Half of the cells give a value of another length (1..128 hex digits, odd
                // lengths included) with one wrong digit — often the last one. It is used
                // only if it mismatches under both readings of a short value: as a prefix of
                // the hex string, and as bytes after left-padding an odd length with "0"
                // (what bita does today) compared over the common length.
                if rng.chance(1, 2) {
                    let full = hex(&arch.model.parsed.header_checksum);
                    let l = if rng.chance(1, 2) { rng.urange(1, 9) } else { rng.urange(1, 128) };
                    let mut digits: Vec<u8> = full.as_bytes()[..l].to_vec();
                    let pos = if rng.chance(1, 2) { l - 1 } else { rng.usize_below(l) };
                    let old = digits[pos];
                    let mut new = old;
                    while new == old {
                        new = b"0123456789abcdef"[rng.usize_below(16)];
                    }
                    digits[pos] = new;
                    let cand = String::from_utf8(digits).unwrap();
                    let padded = if l % 2 == 1 { format!("0{}", cand) } else { cand.clone() };
                    let bytes = crate::util::unhex(&padded);
                    let as_bytes_differs = bytes[..] != arch.model.parsed.header_checksum[..bytes.len()];
                    if !full.starts_with(&cand) && as_bytes_differs {
                        verify = Some(cand);
                    }
                }
            }
            ArchKind::VerifyHeaderMatch => verify = Some(hex(&arch.model.parsed.header_checksum)),
            ArchKind::InvalidDictionary(k) => {
                let mut d = arch.model.parsed.dict.clone();
                match k {
                    0 => d.compression = Some((*rng.pick(&[4u32, 7, 100, u32::MAX]), 1)),
                    1 => {
                        let nd = d.descs.len() as u32;
                        let i = rng.usize_below(d.rebuild_order.len().max(1));
                        if let Some(x) = d.rebuild_order.get_mut(i) {
                            *x = nd + rng.below(3) as u32;
                        }
                    }
                    _ => d.params = None,
                }
                abytes = crate::refimpl::enc::assemble(&d, &crate::refimpl::codec::EncStyle::default(), None, &arch.bytes[hl..]);
            }
        }
        let apath = dir.join("served.cba");
        std::fs::write(&apath, &abytes).unwrap();
        // Work in a dedicated directory so that its listing shows anything created.
        let odir = dir.join("o");
        std::fs::create_dir_all(&odir).unwrap();
        let out = odir.join("out.bin");
        let link_target = odir.join("link-target.bin");
        let appear_content: Vec<u8> = Rng::new(seed ^ 0xa99e).bytes(777);
        let prior: Option<Vec<u8>> = match cell.out {
            OutState::Absent => None,
            OutState::DanglingSymlink => {
                std::os::unix::fs::symlink(&link_target, &out).map_err(|e| e.to_string())?;
                None
            }
            OutState::AppearsDuringHeaderFetch => None,
            OutState::Regular(0) => {
                let l = rng.urange(1, 500);
                Some(rng.bytes(l))
            }
            OutState::Regular(1) => Some(source.clone()),
            OutState::Regular(2) => {
                let mut v = gen::apply_edit(&mut rng, &source, gen::Edit::Swap);
                let extra = rng.urange(1, 3000);
                v.extend(rng.bytes(extra));
                Some(v)
            }
            OutState::Regular(_) => Some(Vec::new()),
            OutState::BlockDev(rel) => {
                let size = match rel {
                    // smaller than the source; half of the time not smaller than the sum of
                    // its distinct chunks
                    -1 => {
                        if rng.chance(1, 2) && unique_sum < source.len() {
                            rng.urange(unique_sum, source.len() - 1)
                        } else {
                            rng.urange(0, source.len() - 1)
                        }
                    }
                    0 => source.len(),
                    _ => source.len() + rng.urange(1, 5000),
                };
                let mut v = gen::apply_edit(&mut rng, &source, gen::Edit::Overwrite);
                v.resize(size, 0x5a);
                Some(v)
            }
        };
        if let Some(pz) = &prior {
            std::fs::write(&out, pz).unwrap();
        }
        let before = listing(&odir);
        let server = if cell.http {
            if cell.out == OutState::AppearsDuringHeaderFetch {
                let (o2, c2) = (out.clone(), appear_content.clone());
                Some(Server::start(
                    Arc::new(abytes.clone()),
                    Arc::new(move |req, _f| {
                        if req.n == 0 {
                            // somebody else creates the output while the header is in flight
                            let _ = std::fs::write(&o2, &c2);
                        }
                        httpd::Action::Full
                    }),
                ))
            } else {
                Some(Server::start(Arc::new(abytes.clone()), httpd::well_behaved()))
            }
        } else {
            None
        };
        let mut seed_args = Vec::new();
        if cell.seeds & 1 != 0 {
            let sp = dir.join("seed.bin");
            std::fs::write(&sp, gen::apply_edit(&mut rng, &source, gen::Edit::Swap)).unwrap();
            seed_args.push(sp);
        }
        if cell.seeds & 2 != 0 {
            seed_args.push(out.clone());
        }
        let spec = CloneSpec {
            archive: server.as_ref().map(|s| s.url()).unwrap_or_else(|| p(&apath)),
            output: out.clone(),
            force: cell.force,
            seed_output: cell.seed_output,
            verify_header: verify,
            seeds: seed_args,
            // options that only add a check must not change whether an existing output is
            // respected: every other repetition of a cell also asks for --verify-output
            // (not on block devices larger than the source, where it cannot pass, DESIGN §2)
            verify_output: (idx / 448) % 2 == 1 && !matches!(cell.out, OutState::BlockDev(_)),
            ..Default::default()
        };
        let mut run = Run::new(&dir, "clone", scn::clone_args(&spec));
        run.watch = vec![out.clone()];
        if matches!(cell.out, OutState::BlockDev(_)) {
            run.blockdev = Some(out.clone());
        }
        let o = proc::run(&run);
        drop(server);
        rep.eval();
        if o.exit == Exit::Timeout {
            rep.inconclusive("watchdog");
            return Ok(());
        }
        let after = listing(&odir);
        let now = std::fs::read(&out).ok();
        let (refusal, header_refusal) = cell.expectation();
        // For the race cell the "prior" content is what the other party wrote (if it got
        // to write at all: an archive refusal can come before or after the first request).
        let appeared = cell.out == OutState::AppearsDuringHeaderFetch;
        let prior = if appeared && refusal { if now.is_some() || out.exists() { Some(appear_content.clone()) } else { None } } else { prior };
        let before = if appeared { after.iter().filter(|f| *f == "out.bin" && prior.is_some() || before.contains(*f)).cloned().collect() } else { before };
        if cell.out == OutState::DanglingSymlink && refusal && link_target.exists() {
            return Err("refused, but the target of the dangling symlink given as output was created".into());
        }
        if refusal {
            if o.exit.ok() {
                return Err(format!("refusal expected but the command exited 0 ({})", o.tail().lines().last().unwrap_or("")));
            }
            if now != prior {
                return Err(match (&prior, &now) {
                    (None, Some(n)) => format!("refused, but an output file of {} bytes was created{}", n.len(), if header_refusal { " (header/archive refusal)" } else { "" }),
                    (Some(pz), Some(n)) => format!("refused, but the existing output changed (length {} -> {}, first difference at {:?})", pz.len(), n.len(), crate::util::first_diff(pz, n)),
                    (Some(_), None) => "refused, and the existing output was removed".to_string(),
                    _ => unreachable!(),
                });
            }
            if after != before {
                return Err(format!("refused, but the directory listing changed: {:?} -> {:?}", before, after));
            }
            let wrote = proc::writes_to(&o.shim, 0).len();
            if wrote > 0 {
                return Err(format!("refused, but {} write(s) reached the output (content happens to be equal)", wrote));
            }
            rep.count("refusals_observed", 1);
            rep.count(if header_refusal { "refusals.header_or_archive" } else { "refusals.output_state" }, 1);
        } else {
            if !o.exit.ok() {
                return Err(format!("this cell must succeed but the command failed: {} :: {}", o.exit.describe(), o.tail()));
            }
            let mut want = source.clone();
            if let (OutState::BlockDev(_), Some(pz)) = (cell.out, &prior) {
                if pz.len() > want.len() {
                    want.extend_from_slice(&pz[want.len()..]);
                }
            }
            if now.as_deref() != Some(&want[..]) {
                return Err("this cell must succeed with output == source but the output differs".into());
            }
            rep.count("successes_observed", 1);
        }
        rep.nontrivial(cell.name());
        rep.sample_if(idx % 53 == 0, || json!({"cell": cell.name(), "refusal_expected": refusal, "exit": o.exit.describe(), "prior_len": prior.as_ref().map(|x| x.len()), "source_len": source.len()}));
        Ok(())
    })();
    scn::cleanup(&dir, res.is_err());
    res.err()
}

fn compress_cells(rep: &Report, seed: u64) {
    // {absent, present(content classes)} x {none, -f} x {file input, stdin}
    let mut cells = Vec::new();
    for present in [None, Some(0u8), Some(1), Some(2), Some(9)] {
        for force in [false, true] {
            for stdin in [false, true] {
                cells.push((present, force, stdin));
            }
        }
    }
    let res = par_map(cells.len(), crate::util::ncpu(), |i| {
        let (present, force, stdin) = cells[i];
        let mut rng = Rng::new(seed).fork(0x14c0 + i as u64);
        let dir = scn::case_dir("C14", 10_000 + i);
        let odir = dir.join("o");
        std::fs::create_dir_all(&odir).unwrap();
        let r = (|| -> Result<bool, String> {
            let src_len = rng.urange(0, 5000);
            let source = gen::gen_source(&mut rng, gen::SrcClass::LowEntropy, src_len);
            let mut spec = CompressSpec::new(Cfg::fixed(rng.urange(32, 500)), Comp::Brotli(2), 64);
            spec.force = force;
            spec.stdin = if stdin { Some(rng.next_u64() | 1) } else { None };
            let (mut run, _) = scn::compress_run(&dir, "a", &source, &spec);
            // redirect the output into the watched directory
            let out = odir.join("a.cba");
            let n = run.args.len();
            run.args[n - 1] = p(&out);
            let link_target = odir.join("link-target.cba");
            let prior: Option<Vec<u8>> = match present {
                None => None,
                Some(9) => {
                    // dangling symlink as output path: O_CREAT|O_EXCL must refuse it
                    std::os::unix::fs::symlink(&link_target, &out).map_err(|e| e.to_string())?;
                    None
                }
                Some(0) => Some(Vec::new()),
                Some(1) => {
                    let l = rng.urange(8000, 30_000);
                    Some(rng.bytes(l))
                }
                Some(_) => Some(b"BITA1\0 looks like an archive but is the user's file".to_vec()),
            };
            if let Some(pz) = &prior {
                std::fs::write(&out, pz).unwrap();
            }
            let before = listing(&odir);
            let o = proc::run(&run);
            if o.exit == Exit::Timeout {
                return Ok(false);
            }
            let after = listing(&odir);
            let now = std::fs::read(&out).ok();
            let refusal = (prior.is_some() || present == Some(9)) && !force;
            if refusal && present == Some(9) && link_target.exists() {
                return Err("compress refused, but the target of the dangling symlink given as output was created".into());
            }
            if refusal {
                if o.exit.ok() {
                    return Err("compress onto an existing output without --force-create exited 0".into());
                }
                if now != prior {
                    return Err("compress refused, but the existing output changed".into());
                }
                if after != before {
                    return Err(format!("compress refused, but the directory listing changed: {:?} -> {:?}", before, after));
                }
            } else {
                if !o.exit.ok() {
                    return Err(format!("compress must succeed in this cell but failed: {}", o.tail()));
                }
                let bytes = now.ok_or("no archive")?;
                let parsed = codec::parse_archive(&bytes).map_err(|e| format!("archive unreadable: {}", e))?;
                if codec::reconstruct(&parsed, &bytes)? != source {
                    return Err("archive does not reconstruct to the source".into());
                }
                // The new archive replaces the old file completely.
                let end = parsed.chunk_data_offset + parsed.dict.descs.iter().map(|d| d.archive_offset + d.archive_size as u64).max().unwrap_or(0);
                if bytes.len() as u64 != end.max(parsed.header_len as u64) {
                    return Err(format!("archive is {} bytes long but its last stored chunk ends at {} (remains of the previous output?)", bytes.len(), end));
                }
            }
            Ok(true)
        })();
        scn::cleanup(&dir, r.is_err());
        (i, r)
    });
    for (i, r) in res {
        rep.eval();
        let (present, force, stdin) = cells[i];
        let name = format!("compress/present={:?}/force={}/stdin={}", present, force, stdin);
        match r {
            Ok(true) => {
                rep.count(if present.is_some() && !force { "compress.refusals_observed" } else { "compress.successes_observed" }, 1);
                if present == Some(9) {
                    rep.count("compress.symlink_cells", 1);
                }
                rep.nontrivial(name);
            }
            Ok(false) => rep.inconclusive("watchdog"),
            Err(why) => rep.violation(
                &format!("c14/{}", name),
                json!({"why": why, "cell": name}),
                json!({"engine": "compress", "seed": seed}),
            ),
        }
    }
}

/// Real loop device smaller than the source (when loop devices are usable).
fn loop_device_too_small(rep: &Report, seed: u64) {
    let mut rng = Rng::new(seed).fork(0x14d0);
    let dir = scn::case_dir("C14", 20_000);
    let r = (|| -> Result<bool, String> {
        let source = rng.bytes(20_000);
        let arch = scn::make_archive(&dir, "a", &source, &CompressSpec::new(Cfg::fixed(1000), Comp::None, 64)).map_err(|_| "build".to_string())?;
        let img = dir.join("dev.img");
        let content = rng.bytes(8192);
        std::fs::write(&img, &content).map_err(|e| e.to_string())?;
        let Some((sysdev, node)) = scn::attach_loop(&img, &dir) else {
            return Ok(false);
        };
        let dev = node.display().to_string();
        let result = (|| {
            // the device named directly, and through a symbolic link (/dev/disk/by-label/...)
            let link = dir.join("by-label-link");
            let _ = std::fs::remove_file(&link);
            std::os::unix::fs::symlink(&node, &link).map_err(|e| e.to_string())?;
            for (force, so, via_link) in [(true, false, false), (false, true, false), (true, false, true), (false, true, true)] {
                let named = if via_link { link.clone() } else { std::path::PathBuf::from(&dev) };
                let spec = CloneSpec { archive: p(&arch.path), output: named, force, seed_output: so, ..Default::default() };
                let mut run = Run::new(&dir, "clone", scn::clone_args(&spec));
                run.watch = vec![std::path::PathBuf::from(&dev)];
                let o = proc::run(&run);
                rep.eval();
                if o.exit.ok() {
                    return Err("clone onto a loop device smaller than the source exited 0".to_string());
                }
                if !node.exists() {
                    return Err("clone onto a too small block device was refused but the device node is gone".to_string());
                }
                let now = std::fs::read(&dev).map_err(|e| e.to_string())?;
                if now != content {
                    return Err("clone onto a too small loop device was refused but the device content changed".to_string());
                }
                rep.count("refusals.real_loop_device_too_small", 1);
                if via_link {
                    rep.count("refusals.real_loop_device_too_small_via_symlink", 1);
                }
            }
            let _ = std::fs::remove_file(&link);
            Ok(())
        })();
        let _ = std::fs::remove_file(&node);
        scn::detach_loop(&sysdev);
        result.map(|_| true)
    })();
    match r {
        Ok(true) => {}
        Ok(false) => rep.inconclusive("no loop device available"),
        Err(e) if e == "build" => rep.inconclusive("archive build"),
        Err(why) => rep.violation("c14/loop-device-too-small", json!({"why": why}), json!({"engine": "loopdev", "seed": seed})),
    }
    scn::cleanup(&dir, false);
}

/// A refusal while the output is being written by somebody else: compress A (input on
/// stdin, fed by the harness) has created OUTPUT and its temp file and is still chunking
/// when compress B names the same OUTPUT without --force-create. B must be refused, and the
/// refusal must leave what it was refused on alone: A finishes with exit 0 and OUTPUT is
/// byte-identical to the archive of a lone run of A. No sleeps decide anything: B is started
/// when OUTPUT and the temp file exist, A gets the rest of its input after B has exited.
fn overlapping_compress(rep: &Report, idx: usize, seed: u64) -> Option<String> {
    use crate::refimpl::chunker::{Algo, Cfg};
    use std::io::Write;
    let mut rng = Rng::new(seed).fork(0x14d0 + idx as u64);
    let dir = scn::case_dir("C14", 20_000 + idx);
    let res = (|| -> Result<(), String> {
        let cfg = match idx % 3 {
            0 => Cfg::fixed(rng.urange(4_000, 40_000)),
            1 => Cfg { algo: Algo::RollSum, window: 64, min: 4096, max: 65_536, bits: 13 },
            _ => Cfg { algo: Algo::BuzHash, window: 16, min: 4096, max: 65_536, bits: 13 },
        };
        let comp = *rng.pick(&[gen::Comp::None, gen::Comp::Brotli(1), gen::Comp::Zstd(1)]);
        // more than the chunker's 1 MiB refill, so that A has really started to chunk and
        // to write its temp file when half of the input has been delivered
        let len_a = rng.urange(2_600_000, 3_400_000);
        let src_a = gen::gen_source(&mut rng, gen::SrcClass::Random, len_a);
        let len_b = rng.urange(10_000, 400_000);
        let src_b = gen::gen_source(&mut rng, gen::SrcClass::LowEntropy, len_b);
        let spec = scn::CompressSpec::new(cfg, comp, 64);
        // lone run of A = reference
        let (run, ref_path) = scn::compress_run(&dir, "ref", &src_a, &spec);
        let o = proc::run(&run);
        rep.eval();
        if !o.exit.ok() {
            rep.inconclusive("overlapping-compress reference run did not succeed");
            return Ok(());
        }
        let reference = std::fs::read(&ref_path).map_err(|e| e.to_string())?;
        let out = dir.join("out.cba");
        let temp = scn::temp_path_of(&out);
        let mut args = vec![s("compress")];
        args.extend(gen::cli_chunker_args(&spec.cfg));
        args.extend(spec.comp.cli_args());
        args.push(s("--hash-length"));
        args.push(s("64"));
        args.push(p(&out));
        let mut a = std::process::Command::new(proc::bita_bin(proc::Bin::Dev))
            .args(&args)
            .env_clear()
            .env("PATH", "/usr/bin:/bin")
            .env("RUST_BACKTRACE", "0")
            .env("HOME", &dir)
            .current_dir(&dir)
            .stdin(std::process::Stdio::piped())
            .stdout(std::process::Stdio::null())
            .stderr(std::process::Stdio::piped())
            .spawn()
            .map_err(|e| format!("harness: spawn: {}", e))?;
        let mut stdin = a.stdin.take().unwrap();
        let half = len_a * 2 / 3;
        let finish = |mut a: std::process::Child| {
            let _ = a.kill();
            let _ = a.wait();
        };
        if stdin.write_all(&src_a[..half]).is_err() {
            finish(a);
            rep.inconclusive("compress A did not take its input");
            return Ok(());
        }
        let _ = stdin.flush();
        // wait (bounded) until A has created OUTPUT and written something to its temp file
        let t0 = std::time::Instant::now();
        loop {
            let ready = out.exists() && std::fs::metadata(&temp).map(|m| m.len() > 0).unwrap_or(false);
            if ready {
                break;
            }
            if t0.elapsed().as_secs() > 20 || a.try_wait().ok().flatten().is_some() {
                finish(a);
                rep.inconclusive("compress A did not reach its chunking phase");
                return Ok(());
            }
            std::thread::sleep(std::time::Duration::from_millis(5));
        }
        let out_before = std::fs::read(&out).unwrap_or_default();
        // B: same OUTPUT, no --force-create
        let bsrc = dir.join("b.src");
        std::fs::write(&bsrc, &src_b).unwrap();
        let mut bargs = vec![s("compress"), s("-i"), p(&bsrc)];
        bargs.extend(gen::cli_chunker_args(&spec.cfg));
        bargs.extend(spec.comp.cli_args());
        bargs.push(p(&out));
        let mut brun = Run::new(&dir, "b", bargs);
        brun.use_shim = false;
        let ob = proc::run(&brun);
        rep.eval();
        let out_after = std::fs::read(&out).unwrap_or_default();
        let temp_there = temp.exists();
        // let A finish
        let rest = stdin.write_all(&src_a[half..]);
        drop(stdin);
        let t1 = std::time::Instant::now();
        let status = loop {
            match a.try_wait() {
                Ok(Some(st)) => break Some(st),
                Ok(None) if t1.elapsed().as_secs() < 90 => std::thread::sleep(std::time::Duration::from_millis(10)),
                _ => break None,
            }
        };
        let Some(status) = status else {
            finish(a);
            rep.inconclusive("watchdog (compress A)");
            return Ok(());
        };
        let mut aerr = String::new();
        if let Some(mut e) = a.stderr.take() {
            use std::io::Read;
            let _ = e.read_to_string(&mut aerr);
        }
        if ob.exit == Exit::Timeout {
            rep.inconclusive("watchdog (compress B)");
            return Ok(());
        }
        if ob.exit.ok() {
            return Err("a compress onto an OUTPUT that another compress is writing, without --force-create, was not refused".into());
        }
        rep.count("compress.refusals_while_another_compress_is_running", 1);
        if out_after.len() < out_before.len() || out_after[..out_before.len()] != out_before[..] {
            return Err(format!("the refused compress changed OUTPUT ({} -> {} bytes) while another compress was writing it", out_before.len(), out_after.len()));
        }
        if !temp_there {
            return Err("the refused compress removed the temp file of the compress that is still running".into());
        }
        if rest.is_err() || !status.success() {
            return Err(format!("after a second compress was refused on the same OUTPUT, the running compress failed ({:?}): {}", status, aerr.lines().last().unwrap_or("")));
        }
        let got = std::fs::read(&out).map_err(|e| e.to_string())?;
        if got != reference {
            return Err(format!("after a second compress was refused on the same OUTPUT, the archive of the running compress differs from a lone run ({} vs {} bytes, first difference {:?})", got.len(), reference.len(), crate::util::first_diff(&got, &reference)));
        }
        rep.nontrivial(format!("overlap:{}#{}", spec.describe(), idx));
        Ok(())
    })();
    scn::cleanup(&dir, res.is_err());
    res.err()
}

pub fn run(tier: Tier, seed: u64) -> i32 {
    let rep = Report::new("C14", "exploration", tier, seed);
    let cells = all_cells();
    let reps = tier.pick(6, 90);
    let total = cells.len() * reps;
    let res = par_map(total, crate::util::ncpu(), |j| {
        let cell = cells[j % cells.len()];
        (j, clone_cell(&rep, j, &cell, seed ^ ((j / cells.len()) as u64) << 32))
    });
    for (j, r) in res {
        if let Some(why) = r {
            let cell = cells[j % cells.len()];
            let class: String = why.split(['(', ':']).next().unwrap_or("").chars().filter(|c| !c.is_ascii_digit()).take(60).collect();
            rep.violation(
                &format!("c14/{}/{}", cell.name(), class.trim()),
                json!({"why": why, "cell": cell.name(), "work_dir": format!("/verif/.work/C14/c{}", j)}),
                json!({"engine": "clone", "cell_index": j % cells.len(), "seed": seed ^ ((j / cells.len()) as u64) << 32, "idx": j}),
            );
        }
    }
    compress_cells(&rep, seed);
    {
        let n = tier.pick(6, 48);
        let out = par_map(n, 6, |i| (i, overlapping_compress(&rep, i, seed)));
        for (i, r) in out {
            if let Some(why) = r {
                rep.violation("c14/compress/refused while another compress is running", json!({"why": why}), json!({"engine": "overlap", "idx": i, "seed": seed}));
            }
        }
    }
    loop_device_too_small(&rep, seed);
    if rep.counter("refusals_observed") == 0 || rep.counter("successes_observed") == 0 || rep.counter("compress.refusals_observed") == 0 {
        rep.broken("matrix did not produce both refusals and successes".into());
    }
    rep.note(format!("clone matrix: {} cells x {} repetition(s) with different contents; compress matrix: 16 cells", cells.len(), reps));
    rep.finish(
        "full matrix of {output absent, regular file with random / source-equal / longer / empty content, block device (hook) smaller / equal / larger than the source} x {no flag, --force-create, --seed-output, both} x {valid archive, flipped magic, flipped header checksum bit, header truncated, truncated to the pre-header, --verify-header mismatch, --verify-header match} x {local, HTTP} for clone, and {absent, present} x {none, --force-create} x {file, stdin input} for compress, a compress refused while another compress is still writing the same OUTPUT (the running one must finish with the archive of a lone run), plus a real loop device smaller than the source when available; refusal cells: exit != 0, output content/length/existence unchanged, directory listing unchanged, no write reached the output (shim); other cells must succeed with the right output; non-trivial = distinct cells judged",
        &["a compress whose *input* is missing leaves an empty output behind; that refusal reason is not among those the property lists (DESIGN.md, observations)"],
        json!({}),
        true,
    )
}

pub fn replay(v: &Value) -> i32 {
    if v["replay"]["engine"] == "overlap" {
        let r = &v["replay"];
        let rep = Report::new("C14", "exploration", Tier::Quick, r["seed"].as_u64().unwrap_or(1));
        return match overlapping_compress(&rep, r["idx"].as_u64().unwrap_or(0) as usize, r["seed"].as_u64().unwrap_or(1)) {
            Some(why) => {
                println!("replay: VIOLATED: {}", why);
                println!("VIOLATION property=C14 replay=(replayed)");
                1
            }
            None => {
                println!("replay: property held on this case");
                0
            }
        };
    }
    let r = &v["replay"];
    let seed = r["seed"].as_u64().unwrap_or(1);
    let mut rep = Report::new("C14", "exploration", Tier::Quick, seed);
    rep.replay_mode = true;
    match r["engine"].as_str().unwrap_or("") {
        "clone" => {
            let cells = all_cells();
            let cell = cells[r["cell_index"].as_u64().unwrap_or(0) as usize];
            match clone_cell(&rep, r["idx"].as_u64().unwrap_or(0) as usize, &cell, seed) {
                Some(w) => {
                    println!("replay: VIOLATED: {}", w);
                    println!("VIOLATION property=C14 replay=(replayed)");
                    1
                }
                None => {
                    println!("replay: property held on this cell");
                    0
                }
            }
        }
        "compress" => {
            compress_cells(&rep, seed);
            if rep.violations() > 0 { 1 } else { 0 }
        }
        _ => {
            loop_device_too_small(&rep, seed);
            if rep.violations() > 0 { 1 } else { 0 }
        }
    }
}
