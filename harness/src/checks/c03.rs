//! C03 — in-place update is exact for every prior content of the output.
//!
//! Library engine: every small (prior, target) layout, and random larger ones, executed
//! by the real planner + executor on an in-memory file; offline simulator over the
//! planner's ReorderOps. Process engine: real `bita clone --seed-output` on prior
//! outputs derived from the source, regular file and block device (hook), local and
//! HTTP (the Range log shows whether a reusable chunk had to be fetched).
use super::clone_common::{self as cc, Faults, Focus, OutKind, Scenario};
use super::layout::{self, Layout};
use crate::evidence::{Report, Tier};
use crate::inst::WriteFault;
use crate::proc::Exit;
use crate::scn;
use crate::util::{par_map, Rng};
use serde_json::{json, Value};

pub fn judge_layout(l: &Layout, chaos: Option<(u64, usize, u64)>) -> Result<(usize, usize), String> {
    let (copies, stores) = layout::judge_ops(l).map_err(|e| format!("planner: {}", e))?;
    let r = layout::execute(l, l.prior_bytes(), WriteFault::None, chaos);
    layout::judge_c03(l, &r)?;
    Ok((copies, stores))
}

fn lib_exhaustive(rep: &Report, tier: Tier) {
    let (k, n, m) = tier.pick((3, 3, 4), (3, 4, 4));
    let sizes = [1usize, 2, 3];
    let shards = 64;
    let out = par_map(shards, crate::util::ncpu(), |sh| {
        let mut evals = 0u64;
        let mut cls: std::collections::BTreeMap<&'static str, u64> = std::collections::BTreeMap::new();
        let mut viol: Vec<(String, Layout)> = Vec::new();
        let mut nontrivial = 0u64;
        let mut ops = (0u64, 0u64);
        for kk in 1..=k {
            layout::enumerate(kk, n, m, &sizes, sh, shards, &mut |l| {
                evals += 1;
                match judge_layout(l, None) {
                    Ok((c, s)) => {
                        ops.0 += c as u64;
                        ops.1 += s as u64;
                        if c > 0 {
                            nontrivial += 1;
                        }
                        for t in layout::classify(l, c, s) {
                            *cls.entry(t).or_insert(0) += 1;
                        }
                    }
                    Err(why) => {
                        if viol.len() < 3 {
                            viol.push((why, l.clone()));
                        }
                    }
                }
            });
        }
        (evals, cls, viol, nontrivial, ops)
    });
    let mut total = 0;
    for (evals, cls, viol, nontrivial, ops) in out {
        total += evals;
        rep.evals(evals);
        rep.count("lib.exhaustive_layouts", evals);
        rep.count("lib.exhaustive_layouts_with_moves", nontrivial);
        rep.count("planner.copy_ops", ops.0);
        rep.count("planner.store_in_mem_ops", ops.1);
        for (k, v) in cls {
            rep.count(&format!("pattern.{}", k), v);
        }
        for (why, l) in viol {
            report_layout(rep, "exhaustive", &why, &l);
        }
    }
    rep.note(format!(
        "exhaustive scope: identities 1..={}, prior slots 0..={} (identity or garbage of size 1/2), target slots 0..={}, sizes {{1,2,3}}: {} layouts, all executed",
        k, n, m, total
    ));
}

fn report_layout(rep: &Report, engine: &str, why: &str, l: &Layout) {
    let class: String = why.chars().filter(|c| !c.is_ascii_digit()).take(44).collect();
    rep.violation(
        &format!("c03/lib/{}", class),
        json!({"why": why, "layout": l.describe(), "engine": engine}),
        json!({"engine": "layout", "layout": l.to_json()}),
    );
}

fn lib_random(rep: &Report, seed: u64, cases: usize) {
    let batch = 2000;
    let out = par_map(cases / batch, crate::util::ncpu(), |b| {
        let mut evals = 0u64;
        let mut viol: Vec<(String, Layout)> = Vec::new();
        let mut keys = Vec::new();
        let mut stores = 0u64;
        for j in 0..batch {
            let i = b * batch + j;
            let mut rng = Rng::new(seed).fork(0x0300_0000 + i as u64);
            let l = layout::random_layout(&mut rng, 12, 6, 8);
            let chaos = if i % 3 == 0 { Some((rng.next_u64(), 3, 4)) } else { None };
            evals += 1;
            match judge_layout(&l, chaos) {
                Ok((c, s)) => {
                    if s > 0 {
                        stores += 1;
                    }
                    if c > 0 && keys.len() < 400 {
                        keys.push(format!("r{}", i));
                    }
                }
                Err(why) => {
                    if viol.len() < 3 {
                        viol.push((why, l));
                    }
                }
            }
        }
        (evals, viol, keys, stores)
    });
    for (evals, viol, keys, stores) in out {
        rep.evals(evals);
        rep.count("lib.random_layouts", evals);
        rep.count("lib.random_layouts_with_cycles", stores);
        for k in keys {
            rep.nontrivial(k);
        }
        for (why, l) in viol {
            report_layout(rep, "random", &why, &l);
        }
    }
}

pub fn one_scenario(rep: &Report, idx: usize, sc: &Scenario, release: bool, keep: bool) -> Option<String> {
    let dir = scn::case_dir("C03", idx);
    let res = (|| -> Result<(), String> {
        let b = match cc::build(&dir, sc) {
            Ok(b) => b,
            Err(e) => {
                rep.inconclusive(&e.chars().take(40).collect::<String>());
                return Ok(());
            }
        };
        cc::prepare_output(&b, sc);
        let o = cc::run_clone(&dir, &b, sc, "clone", &Faults { release, ..Default::default() });
        rep.eval();
        if o.idle_hang {
            return Err("the in-place clone did not end: stopped by the watchdog having used hardly any CPU (idle, not slow)".into());
        }
        if o.exit == Exit::Timeout {
            rep.inconclusive("watchdog");
            return Ok(());
        }
        cc::judge_final(&b, sc, &o)?;
        rep.count(if release { "process.inplace_clones_release" } else { "process.inplace_clones_dev" }, 1);
        if sc.http {
            // A reusable chunk that was destroyed shows up as an extra fetch.
            cc::judge_requests(&b, &o).map_err(|e| format!("fetch set: {}", e))?;
            rep.count("process.fetch_sets_compared", 1);
        }
        let plen = b.prior.as_ref().map(|p| p.len()).unwrap_or(0);
        rep.count(
            if plen < b.source.len() { "process.prior_shorter" } else if plen == b.source.len() { "process.prior_equal" } else { "process.prior_longer" },
            1,
        );
        rep.count("process.in_place_locations", b.pred.in_place.len() as u64);
        rep.count("process.chunks_reused_from_prior", b.pred.from_prior.len() as u64);
        rep.count("output_writes_observed", o.writes.len() as u64);
        let moved = b.pred.from_prior.len() > 0 && (b.pred.in_place.len() as u64) < b.arch.model.src_chunks.len() as u64;
        if moved {
            rep.nontrivial(format!("p{}:{}", idx, sc.key()));
        }
        rep.seen("process.prior_shapes", format!("{}/{}", sc.out_kind.name(), sc.prior.as_ref().map(|d| d.name()).unwrap_or_default()));
        // The same update with one read of the output failing once (EIO): scan reads make
        // the clone fail; a read inside the re-ordering must not be papered over either.
        // Whatever happens, success must still mean an exact output.
        let reads = o.shim.iter().filter(|r| r.widx == 0 && (r.kind == crate::proc::K_READ || r.kind == crate::proc::K_PREAD) && r.ret > 0).count();
        if moved && reads > 0 && !release {
            let mut frng = Rng::new(sc.src_seed ^ 0x4ead);
            let mut ks: Vec<usize> = if reads <= 6 { (0..reads).collect() } else { (0..6).map(|_| frng.usize_below(reads)).collect() };
            // the last reads belong to the re-ordering
            ks.push(reads - 1);
            ks.sort();
            ks.dedup();
            for k in ks {
                cc::prepare_output(&b, sc);
                let of = cc::run_clone(&dir, &b, sc, &format!("rf{}", k), &Faults { read_fault: Some(format!("0,{},{}", k, libc::EIO)), ..Default::default() });
                rep.eval();
                if of.exit == Exit::Timeout || !of.fault_fired {
                    rep.count("process.read_fault_not_reached", 1);
                    continue;
                }
                rep.count("process.read_faults_fired", 1);
                if of.exit.ok() {
                    cc::judge_final(&b, sc, &of).map_err(|e| format!("read #{} of the output failed once (EIO) and the clone still reported success: {}", k, e))?;
                    rep.count("process.read_fault_survived_exact", 1);
                } else {
                    rep.count("process.read_fault_reported", 1);
                }
            }
        }
        // ... and with a write that keeps failing from one point on (the disk is full), at the
        // last write of the update and at a random one: success must still mean exact.
        if moved && !o.writes.is_empty() && !release {
            let mut frng = Rng::new(sc.src_seed ^ 0x3fa1);
            let w = o.write_calls.max(1);
            let mut ks = vec![w - 1, frng.usize_below(w)];
            ks.dedup();
            for k in ks {
                cc::prepare_output(&b, sc);
                let of = cc::run_clone(&dir, &b, sc, &format!("wf{}", k), &Faults { fault: Some(format!("0,{},errno,{},sticky", k, libc::ENOSPC)), ..Default::default() });
                rep.eval();
                if of.exit == Exit::Timeout || !of.fault_fired {
                    rep.count("process.write_fault_not_reached", 1);
                    continue;
                }
                rep.count("process.write_faults_fired", 1);
                if of.exit.ok() {
                    cc::judge_final(&b, sc, &of).map_err(|e| format!("write #{} of {} kept failing (ENOSPC) and the in-place clone still reported success: {}", k, w, e))?;
                }
            }
        }
        rep.sample_if(idx % 23 == 0, || {
            json!({"scenario": sc.to_json(), "prior_len": plen, "source_len": b.source.len(), "reused_chunks": b.pred.from_prior.len(),
                   "in_place": b.pred.in_place.len(), "fetch": b.pred.fetch.len(), "writes": o.writes.len()})
        });
        Ok(())
    })();
    scn::cleanup(&dir, keep && res.is_err());
    res.err()
}

/// The F2 witness: source A A B, prior C C' A (fixed-size chunks).
fn f2_witness() -> Layout {
    Layout {
        sizes: vec![2, 2, 2, 2],
        prior: vec![(2, 2), (3, 2), (0, 2)],
        target: vec![0, 0, 1],
        hash_len: 64,
    }
}

pub fn run(tier: Tier, seed: u64) -> i32 {
    let rep = Report::new("C03", "exploration", tier, seed);
    // Self-test of the oracles: a wrong final content and a lost chunk must be flagged.
    {
        let l = f2_witness();
        let mut r = layout::execute(&l, l.prior_bytes(), WriteFault::None, None);
        if let Err(e) = layout::judge_c03(&l, &r) {
            // On a tree with F2 unrepaired this is the genuine violation, not a broken check.
            report_layout(&rep, "f2-witness", &e, &l);
        } else {
            if let Some(b) = r.final_bytes.first_mut() {
                *b ^= 1;
            }
            if layout::judge_c03(&l, &r).is_ok() {
                rep.broken("judge accepted a corrupted final content".into());
            }
            let mut r2 = layout::execute(&l, l.prior_bytes(), WriteFault::None, None);
            r2.fetched_ids.push(0);
            if layout::judge_c03(&l, &r2).is_ok() {
                rep.broken("judge accepted a fetched-though-present chunk".into());
            }
        }
    }
    lib_exhaustive(&rep, tier);
    lib_random(&rep, seed, tier.pick(1_000_000, 20_000_000));
    let n = tier.pick(900, 9000);
    let viols = par_map(n, crate::util::ncpu(), |i| {
        let mut rng = Rng::new(seed).fork(0x0300 + i as u64);
        let sc = cc::gen_scenario(&mut rng, Focus::InPlace, (1, 2), true);
        let release = tier == Tier::Thorough && i % 4 == 3;
        let v = one_scenario(&rep, i, &sc, release, true);
        (i, sc, release, v)
    });
    for (i, sc, release, v) in viols {
        if let Some(why) = v {
            let class: String = why.split("::").next().unwrap_or("").chars().filter(|c| !c.is_ascii_digit()).take(50).collect();
            rep.violation(
                &format!("c03/process/{}/{}", sc.out_kind.name(), class.trim()),
                json!({"why": why, "scenario": sc.to_json(), "release": release, "work_dir": format!("/verif/.work/C03/c{}", i)}),
                json!({"engine": "process", "scenario": sc.to_json(), "release": release}),
            );
        }
    }
    if tier == Tier::Thorough {
        // Miri over the planner + executor on the N<=2 scope (16 shards in parallel).
        crate::miri::run_slices(&rep, "reorder", 16, 0, "");
    }
    if rep.counter("process.inplace_clones_dev") == 0 || rep.counter("planner.store_in_mem_ops") == 0 {
        rep.broken("no in-place clone judged / no cycle pattern seen".into());
    }
    let _ = OutKind::New;
    rep.finish(
        "library engine: all layouts of the stated small scope (every overlap / cycle / duplicate / partial-presence pattern at that scope) plus random layouts up to 12 prior x 12 target slots, 6 identities, sizes 1..8, hash lengths 4..64, a third of them with short reads/writes and Pending, each executed by the real planner and executor on an in-memory file and cross-checked by an offline simulator of the planner's ReorderOps; process engine: real `bita clone --seed-output` (regular file and block device via hook, local and HTTP, dev profile; a quarter with the release binary in the thorough tier) on prior outputs derived from the source by edits, chunk-level shuffles (reversed / rotated / random / mostly-in-place), same-size-other-content, shorter/equal/longer; verdict: exit 0, output == source (and resized), nothing present in the prior output is fetched; non-trivial = layouts/scenarios with at least one chunk that really moves",
        &[
            "library layouts build the two chunk indexes directly (no scanning); scanning of real prior outputs is covered by the process engine",
            "scenarios with a truncated-hash collision at the stored hash length are dropped (counted inconclusive)",
        ],
        json!({}),
        true,
    )
}

pub fn replay(v: &Value) -> i32 {
    let r = &v["replay"];
    let mut rep = Report::new("C03", "exploration", Tier::Quick, 0);
    rep.replay_mode = true;
    let res = match r["engine"].as_str().unwrap_or("") {
        "layout" => judge_layout(&Layout::from_json(&r["layout"]), None).err(),
        _ => one_scenario(&rep, 900_000, &Scenario::from_json(&r["scenario"]), r["release"].as_bool().unwrap_or(false), false),
    };
    match res {
        Some(w) => {
            println!("replay: VIOLATED: {}", w);
            println!("VIOLATION property=C03 replay=(replayed)");
            1
        }
        None => {
            println!("replay: property held on this case");
            0
        }
    }
}
