//! C09 — chunking is a pure, read-independent function following the rolling-hash rule.
//!
//! Monitor: every item (offset, bytes) of the public chunker stream, driven over a
//! fragmenting / pending source. Oracle: the independent position-based reference
//! chunker R1 plus the structural invariants (tiling, size bounds).
use crate::evidence::{Report, Tier};
use crate::exec::block_on_busy;
use crate::gen::{self, SrcClass};
use crate::inst::{FragPlan, FragSource, PendPlan};
use crate::refimpl::chunker::{self as r1, Algo, Cfg, Cut};
use crate::util::{hex, par_map, unhex, Rng};
use futures_util::StreamExt;
use serde_json::{json, Value};
use std::sync::Arc;

pub struct Observed {
    pub items: Vec<(u64, Vec<u8>)>,
    pub error: Option<String>,
    pub hung: bool,
    pub panicked: Option<String>,
}

/// Drive the real chunker over `data` delivered per (frag, pend); record its items.
pub fn run_real(cfg: &Cfg, data: &Arc<Vec<u8>>, frag: FragPlan, pend: PendPlan) -> Observed {
    let bcfg = gen::to_bitar_config(cfg);
    let data = data.clone();
    let res = std::panic::catch_unwind(std::panic::AssertUnwindSafe(|| {
        let src = FragSource::new(data.clone(), frag, pend);
        let mut stream = bcfg.new_chunker(src);
        let mut items = Vec::new();
        let mut error = None;
        let budget = 64 + 16 * (data.len() as u64 + 1);
        let done = block_on_busy(
            async {
                while let Some(r) = stream.next().await {
                    match r {
                        Ok((off, chunk)) => items.push((off, chunk.data().to_vec())),
                        Err(e) => {
                            error = Some(e.to_string());
                            break;
                        }
                    }
                }
            },
            budget,
        );
        (items, error, done.is_none())
    }));
    match res {
        Ok((items, error, hung)) => Observed {
            items,
            error,
            hung,
            panicked: None,
        },
        Err(p) => Observed {
            items: vec![],
            error: None,
            hung: false,
            panicked: Some(
                p.downcast_ref::<String>()
                    .cloned()
                    .or_else(|| p.downcast_ref::<&str>().map(|s| s.to_string()))
                    .unwrap_or_else(|| "panic".into()),
            ),
        },
    }
}

/// Run the real chunker over a source whose read number `k` fails once with `kind`;
/// polling continues after an error item. Returns (Ok items, error items, finished).
pub fn run_real_with_error(cfg: &Cfg, data: &Arc<Vec<u8>>, frag: FragPlan, pend: PendPlan, k: u64, kind: std::io::ErrorKind) -> Result<(Vec<(u64, Vec<u8>)>, usize, bool), String> {
    let bcfg = gen::to_bitar_config(cfg);
    let data = data.clone();
    crate::util::catch(|| {
        let mut src = FragSource::new(data.clone(), frag, pend);
        src.err_at = Some((k, kind));
        let mut stream = bcfg.new_chunker(src);
        let mut items = Vec::new();
        let mut errors = 0usize;
        let budget = 256 + 32 * (data.len() as u64 + 1);
        let done = block_on_busy(
            async {
                while let Some(r) = stream.next().await {
                    match r {
                        Ok((off, chunk)) => items.push((off, chunk.data().to_vec())),
                        Err(_) => {
                            errors += 1;
                            if errors > 3 {
                                break;
                            }
                        }
                    }
                }
            },
            budget,
        );
        (items, errors, done.is_some())
    })
}

/// With a failing source read the stream may stop early, but only by saying so: every
/// chunk it does deliver is still the chunk the bytes alone determine, and it never ends
/// short of the input without having reported an error item.
pub fn judge_with_error(data: &[u8], items: &[(u64, Vec<u8>)], errors: usize, finished: bool, expect: &[(usize, usize)]) -> Result<(), String> {
    if !finished {
        return Err("chunker stream did not finish within its poll budget after a source read error".into());
    }
    for (i, (off, bytes)) in items.iter().enumerate() {
        match expect.get(i) {
            Some((eo, el)) if *eo as u64 == *off && *el == bytes.len() && data[*eo..*eo + *el] == bytes[..] => {}
            other => {
                return Err(format!(
                    "after a source read error chunk {} is (offset {}, {} bytes) but the bytes alone determine {:?} ({} error item(s) reported)",
                    i,
                    off,
                    bytes.len(),
                    other,
                    errors
                ))
            }
        }
    }
    if items.len() < expect.len() && errors == 0 {
        return Err(format!("a source read error was swallowed: the stream ended after {} of {} chunks without reporting it", items.len(), expect.len()));
    }
    Ok(())
}

/// Judge one observed chunk stream. Returns Err(description) on violation.
pub fn judge(cfg: &Cfg, data: &[u8], obs: &Observed, expect: &[(usize, usize)]) -> Result<(), String> {
    if let Some(p) = &obs.panicked {
        return Err(format!("chunker panicked: {}", p));
    }
    if obs.hung {
        return Err("chunker stream did not finish within its poll budget".into());
    }
    if let Some(e) = &obs.error {
        return Err(format!("chunker returned error on an infallible source: {}", e));
    }
    // Structural invariants, independent of R1.
    let mut pos = 0u64;
    for (i, (off, bytes)) in obs.items.iter().enumerate() {
        if *off != pos {
            return Err(format!("chunk {} offset {} not contiguous (expected {})", i, off, pos));
        }
        let p = pos as usize;
        if p + bytes.len() > data.len() || &data[p..p + bytes.len()] != &bytes[..] {
            return Err(format!("chunk {} bytes differ from the input at offset {}", i, off));
        }
        if bytes.is_empty() {
            return Err(format!("chunk {} is empty", i));
        }
        let last = i + 1 == obs.items.len();
        let (lo, hi) = match cfg.algo {
            Algo::Fixed => (cfg.max, cfg.max),
            _ => (cfg.min.max(1), cfg.max),
        };
        if bytes.len() > hi {
            return Err(format!("chunk {} len {} exceeds max {}", i, bytes.len(), hi));
        }
        if !last && bytes.len() < lo {
            return Err(format!("chunk {} len {} below min {}", i, bytes.len(), lo));
        }
        pos += bytes.len() as u64;
    }
    if pos as usize != data.len() {
        return Err(format!("chunks cover {} of {} input bytes", pos, data.len()));
    }
    // Boundary rule: equality with the reference.
    let got: Vec<(usize, usize)> = obs.items.iter().map(|(o, b)| (*o as usize, b.len())).collect();
    if got != expect {
        let i = got
            .iter()
            .zip(expect.iter())
            .position(|(a, b)| a != b)
            .unwrap_or(got.len().min(expect.len()));
        return Err(format!(
            "boundary rule: chunk {} is {:?}, reference says {:?} (of {} vs {} chunks)",
            i,
            got.get(i),
            expect.get(i),
            got.len(),
            expect.len()
        ));
    }
    Ok(())
}

fn frag_json(f: &FragPlan) -> Value {
    match f {
        FragPlan::All => json!("all"),
        FragPlan::Fixed(n) => json!({"fixed": n}),
        FragPlan::List(l) => json!({"list": l}),
        FragPlan::Random { seed, max } => json!({"random": [seed, max]}),
    }
}
fn frag_from(v: &Value) -> FragPlan {
    if v == "all" {
        FragPlan::All
    } else if let Some(n) = v.get("fixed") {
        FragPlan::Fixed(n.as_u64().unwrap() as usize)
    } else if let Some(l) = v.get("list") {
        FragPlan::List(l.as_array().unwrap().iter().map(|x| x.as_u64().unwrap() as usize).collect())
    } else {
        let a = v["random"].as_array().unwrap();
        FragPlan::Random {
            seed: a[0].as_u64().unwrap(),
            max: a[1].as_u64().unwrap() as usize,
        }
    }
}
fn pend_json(p: &PendPlan) -> Value {
    match p {
        PendPlan::Never => json!("never"),
        PendPlan::Every(k) => json!({"every": k}),
        PendPlan::Random { seed, num, den } => json!({"random": [seed, num, den]}),
        PendPlan::Bits(b) => json!({"bits": b}),
    }
}
fn pend_from(v: &Value) -> PendPlan {
    if v == "never" {
        PendPlan::Never
    } else if let Some(k) = v.get("every") {
        PendPlan::Every(k.as_u64().unwrap())
    } else if let Some(b) = v.get("bits") {
        PendPlan::Bits(b.as_array().unwrap().iter().map(|x| x.as_bool().unwrap()).collect())
    } else {
        let a = v["random"].as_array().unwrap();
        PendPlan::Random {
            seed: a[0].as_u64().unwrap(),
            num: a[1].as_u64().unwrap(),
            den: a[2].as_u64().unwrap(),
        }
    }
}
pub fn cfg_json(c: &Cfg) -> Value {
    json!({"algo": match c.algo { Algo::Fixed => "fixed", Algo::RollSum => "rollsum", Algo::BuzHash => "buzhash" },
           "window": c.window, "min": c.min, "max": c.max, "bits": c.bits})
}
pub fn cfg_from(v: &Value) -> Cfg {
    Cfg {
        algo: match v["algo"].as_str().unwrap() {
            "fixed" => Algo::Fixed,
            "rollsum" => Algo::RollSum,
            _ => Algo::BuzHash,
        },
        window: v["window"].as_u64().unwrap() as usize,
        min: v["min"].as_u64().unwrap() as usize,
        max: v["max"].as_u64().unwrap() as usize,
        bits: v["bits"].as_u64().unwrap() as u32,
    }
}

/// How the data of a case can be regenerated for replay.
#[derive(Clone, Debug)]
enum DataSpec {
    Literal(Vec<u8>),
    Gen { seed: u64, class: SrcClass, len: usize },
    F5 { seed: u64, window: usize, pre: usize, zeros: usize, len: usize },
}

fn class_name(c: SrcClass) -> &'static str {
    match c {
        SrcClass::Random => "random",
        SrcClass::Constant => "constant",
        SrcClass::LowEntropy => "lowentropy",
        SrcClass::ZeroRuns => "zeroruns",
        SrcClass::BlockRepetitive => "blockrep",
        SrcClass::Zeros => "zeros",
        SrcClass::LevelShift => "levelshift",
        SrcClass::MixedEntropy => "mixedentropy",
    }
}
fn class_from(s: &str) -> SrcClass {
    match s {
        "random" => SrcClass::Random,
        "constant" => SrcClass::Constant,
        "lowentropy" => SrcClass::LowEntropy,
        "zeroruns" => SrcClass::ZeroRuns,
        "blockrep" => SrcClass::BlockRepetitive,
        "levelshift" => SrcClass::LevelShift,
        "mixedentropy" => SrcClass::MixedEntropy,
        _ => SrcClass::Zeros,
    }
}

impl DataSpec {
    fn build(&self) -> Vec<u8> {
        match self {
            DataSpec::Literal(v) => v.clone(),
            DataSpec::Gen { seed, class, len } => gen::gen_source(&mut Rng::new(*seed), *class, *len),
            DataSpec::F5 { seed, window, pre, zeros, len } => {
                // `pre` arbitrary bytes, then a window whose last byte is non-zero,
                // then a run of zeros, then random data.
                let mut rng = Rng::new(*seed);
                let mut v = rng.bytes(*pre);
                let mut w = rng.bytes(*window);
                if let Some(l) = w.last_mut() {
                    if *l == 0 {
                        *l = 0x5a;
                    }
                }
                v.extend(w);
                v.extend(std::iter::repeat(0u8).take(*zeros));
                if v.len() < *len {
                    let more = rng.bytes(*len - v.len());
                    v.extend(more);
                }
                v
            }
        }
    }
    fn to_json(&self) -> Value {
        match self {
            DataSpec::Literal(v) => json!({"hex": hex(v)}),
            DataSpec::Gen { seed, class, len } => json!({"gen": [seed, class_name(*class), len]}),
            DataSpec::F5 { seed, window, pre, zeros, len } => json!({"f5": [seed, window, pre, zeros, len]}),
        }
    }
    fn from_json(v: &Value) -> DataSpec {
        if let Some(h) = v.get("hex") {
            DataSpec::Literal(unhex(h.as_str().unwrap()))
        } else if let Some(g) = v.get("gen") {
            DataSpec::Gen {
                seed: g[0].as_u64().unwrap(),
                class: class_from(g[1].as_str().unwrap()),
                len: g[2].as_u64().unwrap() as usize,
            }
        } else {
            let g = &v["f5"];
            DataSpec::F5 {
                seed: g[0].as_u64().unwrap(),
                window: g[1].as_u64().unwrap() as usize,
                pre: g[2].as_u64().unwrap() as usize,
                zeros: g[3].as_u64().unwrap() as usize,
                len: g[4].as_u64().unwrap() as usize,
            }
        }
    }
}

#[derive(Default)]
struct Local {
    evals: u64,
    cut_hash: u64,
    cut_max: u64,
    cut_tail: u64,
    chunks: u64,
    pendings: u64,
    reads: u64,
    multi_refill: u64,
    viol: Vec<(String, Value, Value)>,
    nontrivial: Vec<String>,
    cfgs: Vec<String>,
}

fn one_case(
    cfg: &Cfg,
    spec: &DataSpec,
    data: &Arc<Vec<u8>>,
    expect: &[(usize, usize)],
    frag: FragPlan,
    pend: PendPlan,
    engine: &str,
    loc: &mut Local,
) {
    let obs = run_real(cfg, data, frag.clone(), pend.clone());
    loc.evals += 1;
    if let Err(why) = judge(cfg, data, &obs, expect) {
        if loc.viol.len() < 5 {
            let class = why.split(':').next().unwrap_or("").to_string();
            loc.viol.push((
                format!("c09/{}/{}", engine, class.chars().take(40).collect::<String>()),
                json!({"why": why, "cfg": cfg.describe(), "len": data.len()}),
                json!({"engine": "case", "cfg": cfg_json(cfg), "data": spec.to_json(),
                       "frag": frag_json(&frag), "pend": pend_json(&pend)}),
            ));
        }
    }
}

fn tally(cfg: &Cfg, data: &[u8], loc: &mut Local) -> Vec<(usize, usize)> {
    let ex = r1::chunk_with_reasons(cfg, data);
    for (_, _, c) in &ex {
        match c {
            Cut::Hash => loc.cut_hash += 1,
            Cut::Max => loc.cut_max += 1,
            Cut::Tail => loc.cut_tail += 1,
        }
    }
    loc.chunks += ex.len() as u64;
    ex.into_iter().map(|(o, l, _)| (o, l)).collect()
}

/// All compositions of n (ordered split patterns), as lists of read sizes.
fn compositions(n: usize) -> Vec<Vec<usize>> {
    if n == 0 {
        return vec![vec![]];
    }
    let mut out = Vec::new();
    for bits in 0..(1u32 << (n - 1)) {
        let mut v = Vec::new();
        let mut cur = 1;
        for i in 0..n - 1 {
            if bits >> i & 1 == 1 {
                v.push(cur);
                cur = 1;
            } else {
                cur += 1;
            }
        }
        v.push(cur);
        out.push(v);
    }
    out
}

fn tiny_configs() -> Vec<Cfg> {
    let mut v = Vec::new();
    for n in 1..=6 {
        v.push(Cfg::fixed(n));
    }
    for algo in [Algo::RollSum, Algo::BuzHash] {
        for w in 1..=3usize {
            for max in w..=6 {
                for min in 0..=max.min(4) {
                    for bits in 1..=2u32 {
                        v.push(Cfg { algo, window: w, min, max, bits });
                    }
                }
            }
        }
    }
    v
}

fn nth_string(mut idx: u64, len: usize, alpha: &[u8]) -> Vec<u8> {
    let k = alpha.len() as u64;
    let mut s = vec![0u8; len];
    for c in s.iter_mut() {
        *c = alpha[(idx % k) as usize];
        idx /= k;
    }
    s
}

/// Engine 1: all strings up to `maxlen` over a 3-letter alphabet × all tiny configs.
/// Each (string, config) runs unsplit and under one split pattern; patterns rotate
/// so that every composition of every length is used.
fn exhaustive_strings(rep: &Report, maxlen: usize) {
    let alpha = [0u8, 0x61, 0xff];
    let cfgs = tiny_configs();
    let mut jobs: Vec<(usize, u64, u64)> = Vec::new(); // (len, first idx, count)
    for len in 0..=maxlen {
        let total = 3u64.pow(len as u32);
        let step = 300u64;
        let mut a = 0;
        while a < total {
            jobs.push((len, a, step.min(total - a)));
            a += step;
        }
    }
    let locals = par_map(jobs.len(), crate::util::ncpu(), |j| {
        let (len, first, count) = jobs[j];
        let comps = compositions(len);
        let mut loc = Local::default();
        let mut rot = first as usize;
        for idx in first..first + count {
            let s = nth_string(idx, len, &alpha);
            let data = Arc::new(s.clone());
            let spec = DataSpec::Literal(s);
            for cfg in &cfgs {
                let expect = tally(cfg, &data, &mut loc);
                one_case(cfg, &spec, &data, &expect, FragPlan::All, PendPlan::Never, "exhaustive", &mut loc);
                let comp = &comps[rot % comps.len()];
                rot += 1;
                let pend = if rot % 3 == 0 { PendPlan::Every(2) } else { PendPlan::Never };
                one_case(cfg, &spec, &data, &expect, FragPlan::List(comp.clone()), pend, "exhaustive", &mut loc);
                if expect.len() >= 2 {
                    loc.nontrivial.push(format!("x{}:{}:{}", len, idx, cfg.describe()));
                }
            }
        }
        loc
    });
    merge(rep, locals, "exhaustive_strings");
    rep.count("exhaustive.max_string_len", 0);
    rep.note(format!(
        "exhaustive: all strings of length 0..={} over alphabet {{00,61,ff}} x {} tiny configs (w 1..3, min 0..4, max<=6, bits 1..2, fixed 1..6)",
        maxlen,
        cfgs.len()
    ));
}

/// Engine 2: for sampled (string, config) pairs, every split pattern, each with and
/// without Pending injection.
fn all_splits(rep: &Report, seed: u64, pairs: usize, len: usize) {
    let cfgs = tiny_configs();
    let alpha = [0u8, 0x61, 0xff, 0x01];
    let comps = compositions(len);
    let locals = par_map(pairs, crate::util::ncpu(), |i| {
        let mut rng = Rng::new(seed).fork(0x5151 + i as u64);
        let s: Vec<u8> = (0..len).map(|_| *rng.pick(&alpha)).collect();
        let cfg = *rng.pick(&cfgs);
        let data = Arc::new(s.clone());
        let spec = DataSpec::Literal(s);
        let mut loc = Local::default();
        let expect = tally(&cfg, &data, &mut loc);
        for (ci, comp) in comps.iter().enumerate() {
            one_case(&cfg, &spec, &data, &expect, FragPlan::List(comp.clone()), PendPlan::Never, "allsplits", &mut loc);
            let bits: Vec<bool> = (0..7).map(|b| (ci * 31 + i * 7) >> b & 1 == 1).collect();
            one_case(&cfg, &spec, &data, &expect, FragPlan::List(comp.clone()), PendPlan::Bits(bits), "allsplits", &mut loc);
        }
        if expect.len() >= 2 {
            loc.nontrivial.push(format!("s{}:{}", i, cfg.describe()));
        }
        loc
    });
    merge(rep, locals, "all_splits");
    rep.note(format!(
        "all-splits: {} (string,config) pairs of length {} x all {} compositions x {{no pending, pending bitmap}}",
        pairs,
        len,
        comps.len()
    ));
}

fn random_cfg(rng: &mut Rng, len: usize) -> Cfg {
    let kind = rng.below(10);
    if kind < 5 {
        return gen::gen_small_cfg(rng);
    }
    // Wider parameter families: bits up to 24, windows up to 256, max possibly > 1 MiB.
    let algo = if rng.chance(1, 2) { Algo::RollSum } else { Algo::BuzHash };
    let window = rng.urange(1, 256);
    let bits = if kind < 8 { rng.range(1, 12) as u32 } else { rng.range(12, 24) as u32 };
    let max = match rng.below(4) {
        0 => window + rng.urange(0, 2000),
        1 => window + rng.urange(0, 70_000),
        2 => (len / 2).max(window),
        _ => (1 << 20) + rng.urange(1, 1 << 20),
    };
    let min = match rng.below(5) {
        0 => 0,
        1 => window.min(max),
        2 => (window + 1).min(max),
        3 => window.saturating_sub(1).min(max),
        _ => rng.urange(0, max.min(100_000)),
    };
    Cfg { algo, window, min, max, bits }
}

/// Engine 3: random / constant / zero-run-laden / repetitive strings under random
/// configurations, each under several read schedules.
fn random_streams(rep: &Report, seed: u64, cases: usize, big_every: usize, max_big: usize) {
    let locals = par_map(cases, crate::util::ncpu(), |i| {
        let mut rng = Rng::new(seed).fork(0x9000 + i as u64);
        let big = big_every > 0 && i % big_every == 0;
        let len = if big {
            rng.urange(1 << 20, max_big)
        } else {
            match rng.below(4) {
                0 => rng.urange(0, 64),
                1 => rng.urange(0, 2000),
                _ => rng.urange(0, 40_000),
            }
        };
        // Every 40th case: a hash window of several KiB over image-like data with level
        // shifts (sums over the window exceed 32 bits and must wrap, not clamp).
        let bigwin = !big && i % 40 == 7;
        let len = if bigwin { rng.urange(60_000, 300_000) } else { len };
        let class = if bigwin { *rng.pick(&[SrcClass::LevelShift, SrcClass::LevelShift, SrcClass::ZeroRuns, SrcClass::Random]) } else { *rng.pick(&gen::SRC_CLASSES_EXT) };
        let dseed = rng.next_u64();
        let spec = DataSpec::Gen { seed: dseed, class, len };
        let data = Arc::new(spec.build());
        let cfg = if bigwin { gen::gen_bigwindow_cfg(&mut rng) } else { random_cfg(&mut rng, len) };
        let mut loc = Local::default();
        let expect = tally(&cfg, &data, &mut loc);
        loc.cfgs.push(format!(
            "{:?}/{}/{}{}",
            cfg.algo,
            if cfg.min < cfg.window { "min<w" } else if cfg.min == cfg.window { "min=w" } else { "min>w" },
            if cfg.max > (1 << 20) { "max>1MiB" } else { "max<=1MiB" },
            if cfg.window >= 3000 { "/window>=3000" } else { "" }
        ));
        if expect.iter().any(|c| c.1 > (1 << 20)) {
            loc.multi_refill += 1;
        }
        let scheds: Vec<(FragPlan, PendPlan)> = vec![
            (FragPlan::All, PendPlan::Never),
            (
                FragPlan::Random { seed: rng.next_u64(), max: if big { 300_000 } else { 1 + len / 3 } },
                PendPlan::Random { seed: rng.next_u64(), num: 1, den: 4 },
            ),
            (
                if big { FragPlan::Fixed(rng.urange(1, 5000)) } else { FragPlan::Fixed(rng.urange(1, 3)) },
                if big { PendPlan::Never } else { PendPlan::Every(3) },
            ),
        ];
        for (f, p) in scheds {
            one_case(&cfg, &spec, &data, &expect, f, p, "random", &mut loc);
        }
        if expect.len() >= 2 {
            loc.nontrivial.push(format!("r{}:{}:{}", i, class_name(class), cfg.describe()));
        }
        loc
    });
    merge(rep, locals, "random_streams");
}

/// Engine 4: the F5 input class — first hash window ending in a non-zero byte,
/// followed by at least `window` zeros — with and without a skipped region, plus
/// zero runs right after later chunk boundaries.
fn f5_class(rep: &Report, seed: u64, cases: usize) {
    let locals = par_map(cases, crate::util::ncpu(), |i| {
        let mut rng = Rng::new(seed).fork(0xf500 + i as u64);
        let window = rng.urange(1, 40);
        let bits = rng.range(1, 4) as u32;
        let max = window + rng.urange(1, 200);
        let min = match rng.below(4) {
            0 => 0,
            1 => window.min(max),
            2 => (window + 1 + rng.urange(0, 30)).min(max),
            _ => rng.urange(0, max),
        };
        let cfg = Cfg { algo: Algo::BuzHash, window, min, max, bits };
        let pre = if rng.chance(1, 2) { 0 } else { rng.urange(0, 3 * window) };
        let zeros = window + rng.urange(0, 2 * window + 4);
        let len = pre + window + zeros + rng.urange(0, 600);
        let spec = DataSpec::F5 { seed: rng.next_u64(), window, pre, zeros, len };
        let data = Arc::new(spec.build());
        let mut loc = Local::default();
        let expect = tally(&cfg, &data, &mut loc);
        one_case(&cfg, &spec, &data, &expect, FragPlan::All, PendPlan::Never, "f5", &mut loc);
        one_case(
            &cfg,
            &spec,
            &data,
            &expect,
            FragPlan::Random { seed: rng.next_u64(), max: 1 + window },
            PendPlan::Every(4),
            "f5",
            &mut loc,
        );
        if expect.len() >= 2 {
            loc.nontrivial.push(format!("f{}:{}", i, cfg.describe()));
        }
        loc
    });
    merge(rep, locals, "f5_class");
}

/// One case of engine 5; returns (violation, an error item was reported, all chunks delivered).
fn source_error_case(seed: u64, i: usize) -> (Option<String>, bool, bool) {
    let kinds = [std::io::ErrorKind::Interrupted, std::io::ErrorKind::WouldBlock, std::io::ErrorKind::TimedOut, std::io::ErrorKind::Other, std::io::ErrorKind::UnexpectedEof];
    let mut rng = Rng::new(seed).fork(0xe990 + i as u64);
    let cfg = gen::gen_small_cfg(&mut rng);
    let len = rng.urange(1, 6000);
    let class = *rng.pick(&gen::SRC_CLASSES);
    let dseed = rng.next_u64();
    let data = Arc::new(gen::gen_source(&mut Rng::new(dseed), class, len));
    let expect = r1::chunk(&cfg, &data);
    let max = *rng.pick(&[1usize, 7, 64, 700, 5000]);
    let fseed = rng.next_u64();
    // aim inside the stream most of the time
    let k = rng.range(0, (len / ((max + 1) / 2).max(1)) as u64 + 1);
    let kind = *rng.pick(&kinds);
    let pend = if rng.chance(1, 3) { PendPlan::Every(3) } else { PendPlan::Never };
    match run_real_with_error(&cfg, &data, FragPlan::Random { seed: fseed, max }, pend, k, kind) {
        Err(p) => (Some(format!("chunker panicked after a source read error: {}", p)), false, false),
        Ok((items, errors, finished)) => (
            judge_with_error(&data, &items, errors, finished, &expect).err().map(|w| format!("{} [{} / {:?} at read {}]", w, cfg.describe(), kind, k)),
            errors > 0,
            items.len() == expect.len(),
        ),
    }
}

/// Engine 5: one source read fails once (EINTR, EAGAIN, timeout, other): how the data
/// arrived includes that it arrived after an error.
fn source_errors(rep: &Report, seed: u64, cases: usize) {
    let out = par_map(cases.div_ceil(200), crate::util::ncpu(), |b| {
        let mut viol = Vec::new();
        let (mut n, mut reported, mut completed) = (0u64, 0u64, 0u64);
        for j in 0..200 {
            let i = b * 200 + j;
            n += 1;
            let (v, r, c) = source_error_case(seed, i);
            reported += r as u64;
            completed += c as u64;
            if let Some(w) = v {
                if viol.len() < 3 {
                    viol.push((w, i));
                }
            }
        }
        (n, reported, completed, viol)
    });
    for (n, reported, completed, viol) in out {
        rep.evals(n);
        rep.count("source_errors.cases", n);
        rep.count("source_errors.error_item_reported", reported);
        rep.count("source_errors.all_chunks_delivered", completed);
        for (w, i) in viol {
            let class: String = w.split('[').next().unwrap_or("").chars().filter(|c| !c.is_ascii_digit()).take(60).collect();
            rep.violation(&format!("c09/source-error/{}", class.trim()), json!({"why": w}), json!({"engine": "source_error", "seed": seed, "i": i}));
        }
    }
}

fn merge(rep: &Report, locals: Vec<Local>, engine: &str) {
    let mut evals = 0;
    for l in locals {
        evals += l.evals;
        rep.count("boundaries.by_hash", l.cut_hash);
        rep.count("boundaries.by_max", l.cut_max);
        rep.count("boundaries.tail", l.cut_tail);
        rep.count("reference_chunks", l.chunks);
        rep.count("cases_with_chunk_over_refill_buffer", l.multi_refill);
        for k in l.nontrivial {
            rep.nontrivial(k);
        }
        for c in l.cfgs {
            rep.seen("config_families", c);
        }
        for (sig, d, r) in l.viol {
            rep.violation(&sig, d, r);
        }
    }
    rep.evals(evals);
    rep.count(&format!("executions.{}", engine), evals);
}

fn self_test(rep: &Report) {
    if let Err(e) = r1::self_test() {
        rep.broken(format!("reference self-test: {}", e));
    }
    // The judge must reject a stream with one boundary moved, one chunk dropped, and
    // wrong bytes.
    let cfg = Cfg::fixed(4);
    let data: Vec<u8> = (0..10u8).collect();
    let expect = r1::chunk(&cfg, &data);
    let good = Observed {
        items: vec![(0, data[0..4].to_vec()), (4, data[4..8].to_vec()), (8, data[8..10].to_vec())],
        error: None,
        hung: false,
        panicked: None,
    };
    if judge(&cfg, &data, &good, &expect).is_err() {
        rep.broken("judge rejects a correct stream".into());
    }
    let bads = vec![
        vec![(0u64, data[0..5].to_vec()), (5, data[5..8].to_vec()), (8, data[8..10].to_vec())],
        vec![(0u64, data[0..4].to_vec()), (4, data[4..8].to_vec())],
        vec![(0u64, data[0..4].to_vec()), (4, vec![9, 9, 9, 9]), (8, data[8..10].to_vec())],
        vec![(0u64, data[0..4].to_vec()), (5, data[4..8].to_vec()), (8, data[8..10].to_vec())],
    ];
    for (i, b) in bads.into_iter().enumerate() {
        let o = Observed { items: b, error: None, hung: false, panicked: None };
        if judge(&cfg, &data, &o, &expect).is_ok() {
            rep.broken(format!("judge accepted synthetic bad stream {}", i));
        }
    }
}

pub fn run(tier: Tier, seed: u64) -> i32 {
    let rep = Report::new("C09", "exploration", tier, seed);
    self_test(&rep);
    exhaustive_strings(&rep, tier.pick(8, 10));
    all_splits(&rep, seed, tier.pick(300, 3000), 8);
    all_splits(&rep, seed ^ 0x77, tier.pick(60, 400), 10);
    random_streams(&rep, seed, tier.pick(16_000, 300_000), tier.pick(200, 300), tier.pick(3 << 20, 5 << 20));
    f5_class(&rep, seed, tier.pick(40_000, 1_000_000));
    source_errors(&rep, seed, tier.pick(40_000, 1_000_000));
    if tier == Tier::Thorough {
        crate::miri::run_slices(&rep, "chunker", 16, 60, "");
    }
    if rep.counter("boundaries.by_hash") == 0 || rep.counter("boundaries.by_max") == 0 {
        rep.broken("workload produced no hash-decided or no max-decided boundary".into());
    }
    // A few samples for the evidence file.
    let mut rng = Rng::new(seed);
    for _ in 0..4 {
        let cfg = gen::gen_small_cfg(&mut rng);
        let d = gen::gen_source(&mut rng, SrcClass::LowEntropy, 60);
        rep.sample(json!({"cfg": cfg.describe(), "input_hex": hex(&d), "reference_chunks": r1::chunk(&cfg, &d)}));
    }
    rep.finish(
        "every item of bitar's public chunker stream over a fragmenting/pending source is compared with the independent position-based reference chunker R1 and with the tiling/size invariants; engines: exhaustive short strings x tiny configs, all split patterns, random streams (incl. chunks larger than the 1 MiB refill buffer), the F5 zero-run class; non-trivial = distinct (input, config) with >= 2 chunks",
        &[
            "R1's two stream-start conventions (RollSum zero-padded start, BuzHash first test at window+1) are taken from the code (DESIGN.md 4.5)",
            "BuzHash substitution table is pinned data in /verif",
        ],
        json!({}),
        false,
    )
}

pub fn replay(v: &Value) -> i32 {
    let r = &v["replay"];
    if r["engine"] == "source_error" {
        return match source_error_case(r["seed"].as_u64().unwrap_or(1), r["i"].as_u64().unwrap_or(0) as usize).0 {
            None => {
                println!("replay: property held on this case");
                0
            }
            Some(e) => {
                println!("replay: VIOLATED: {}", e);
                println!("VIOLATION property=C09 replay=(replayed)");
                1
            }
        };
    }
    let cfg = cfg_from(&r["cfg"]);
    let spec = DataSpec::from_json(&r["data"]);
    let data = Arc::new(spec.build());
    let expect = r1::chunk(&cfg, &data);
    let obs = run_real(&cfg, &data, frag_from(&r["frag"]), pend_from(&r["pend"]));
    match judge(&cfg, &data, &obs, &expect) {
        Ok(()) => {
            println!("replay: property held on this case");
            0
        }
        Err(e) => {
            println!("replay: VIOLATED: {}", e);
            println!("VIOLATION property=C09 replay=(replayed)");
            1
        }
    }
}
