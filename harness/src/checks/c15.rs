//! C15 — untrusted archives / servers yield errors, never panics, aborts or unbounded work.
//!
//! Monitor: the process boundary of the real `bita info` / `bita clone` /
//! `bita clone --seed-output` / `bita clone --seed` (exit status, terminating signal,
//! CPU rlimit, peak RSS), and a library worker process running many cases under
//! catch_unwind with a journal naming the current case. Inputs: random bytes, bit
//! flips / truncations of valid archives, field mutations under a re-computed header
//! checksum (independent encoder R2), corrupted payloads per codec, lying servers.
//! Oracle: exit 101 (panic), death by signal (SIGABRT, SIGSEGV, SIGXCPU = runaway
//! loop), RSS beyond what the dictionary declares, or an item-count runaway = violation.
use crate::evidence::{Report, Tier};
use crate::gen::{self, Comp};
use crate::httpd::{Action, Server};
use crate::proc::{self, p, s, Exit, Run};
use crate::refimpl::chunker::{Algo, Cfg};
use crate::refimpl::codec::{self, Desc, Dict, EncStyle};
use crate::refimpl::enc::{self, ArchiveSpec};
use crate::scn::{self, CloneSpec};
use crate::util::{hex, par_map, Rng};
use serde_json::{json, Value};
use std::path::Path;
use std::sync::Arc;

/// A hostile archive with the class of its mutation (stable identity for known findings).
#[derive(Clone)]
pub struct Hostile {
    pub class: String,
    pub bytes: Vec<u8>,
    /// Sum of sizes the dictionary declares for the chunks (bounds legitimate memory).
    pub declared: u64,
}

fn base_source(rng: &mut Rng) -> (Vec<u8>, Cfg) {
    let n = rng.urange(32, 80);
    let mut src = gen::gen_source(rng, gen::SrcClass::LowEntropy, n * 3);
    src.extend(rng.bytes(n * 2));
    (src, Cfg::fixed(n))
}

/// Build a valid archive with R2 and return (dict, body, style) for mutation.
fn base_archive(rng: &mut Rng, comp: (u32, u32), cfg_kind: u64) -> (Vec<u8>, Dict, Vec<u8>, Vec<u8>) {
    let (src, fixed) = base_source(rng);
    let cfg = match cfg_kind {
        0 => fixed,
        1 => Cfg { algo: Algo::RollSum, window: 8, min: 16, max: 128, bits: 5 },
        _ => Cfg { algo: Algo::BuzHash, window: 8, min: 16, max: 128, bits: 5 },
    };
    let spec = ArchiveSpec::plain(cfg, 16, comp);
    let e = enc::encode_archive(&src, &spec).expect("encode base");
    let body = e.bytes[e.chunk_data_offset as usize..].to_vec();
    (src, e.dict, body, e.bytes)
}

fn assemble(class: &str, dict: &Dict, cdo: Option<u64>, body: &[u8]) -> Hostile {
    let declared: u64 = dict.descs.iter().map(|d| d.source_size as u64 + d.archive_size as u64).sum();
    Hostile {
        class: class.to_string(),
        bytes: enc::assemble(dict, &EncStyle::default(), cdo, body),
        declared: declared.min(1 << 36),
    }
}

/// The catalogue of field mutations under a valid checksum.
pub fn field_mutations(rng: &mut Rng) -> Vec<Hostile> {
    let mut out = Vec::new();
    for cfg_kind in 0..3u64 {
        let comp = *rng.pick(&[(0u32, 0u32), (3, 4), (2, 3), (1, 2)]);
        let (_src, dict, body, _valid) = base_archive(rng, comp, cfg_kind);
        let algo = ["fixed", "rollsum", "buzhash"][cfg_kind as usize];
        let nd = dict.descs.len() as u32;
        let mut m = |class: &str, f: &dyn Fn(&mut Dict)| {
            let mut d = dict.clone();
            f(&mut d);
            out.push(assemble(&format!("{}/{}", algo, class), &d, None, &body));
        };
        // rebuild order
        m("rebuild_order.index=ndesc", &|d| d.rebuild_order[0] = nd);
        m("rebuild_order.index=u32max", &|d| *d.rebuild_order.last_mut().unwrap() = u32::MAX);
        m("rebuild_order.empty", &|d| d.rebuild_order.clear());
        m("rebuild_order.long", &|d| d.rebuild_order = vec![0; 5000]);
        m("descriptors.none", &|d| d.descs.clear());
        m("descriptors.none+order.empty", &|d| {
            d.descs.clear();
            d.rebuild_order.clear();
        });
        // descriptor fields
        m("desc.archive_offset=u64max", &|d| d.descs[0].archive_offset = u64::MAX);
        m("desc.archive_offset=2^63", &|d| d.descs[1].archive_offset = 1 << 63);
        m("desc.archive_offset=past_eof", &|d| d.descs[0].archive_offset = 1 << 20);
        m("desc.archive_size=0", &|d| d.descs[0].archive_size = 0);
        m("desc.archive_size=0(all)", &|d| d.descs.iter_mut().for_each(|x| x.archive_size = 0));
        m("desc.archive_size=16MiB", &|d| d.descs[0].archive_size = 16 << 20);
        m("desc.archive_size+1", &|d| d.descs[0].archive_size += 1);
        m("desc.archive_size-1", &|d| d.descs[0].archive_size -= 1);
        m("desc.source_size=0", &|d| d.descs[0].source_size = 0);
        m("desc.source_size=0(all)", &|d| d.descs.iter_mut().for_each(|x| x.source_size = 0));
        m("desc.source_size=16MiB", &|d| d.descs[0].source_size = 16 << 20);
        m("desc.source_size-1", &|d| d.descs[0].source_size -= 1);
        m("desc.checksum.len=0", &|d| d.descs[0].checksum.clear());
        m("desc.checksum.len=1", &|d| d.descs[0].checksum.truncate(1));
        m("desc.checksum.len=65", &|d| d.descs[0].checksum = vec![7; 65]);
        m("desc.checksum.len=300", &|d| d.descs[0].checksum = vec![7; 300]);
        // A self-consistent layout that lies about sizes: every chunk large (but a size the
        // format may declare for ONE chunk, and small enough to be allocated under the
        // limits here) and back to back, so that sums over adjacent chunks — what one
        // range request covers — are far beyond the address space. Memory may follow one
        // chunk's declared size, never the sum.
        m("desc.archive_size=64MiB(all,adjacent)", &|d| {
            let mut off = 0u64;
            for x in d.descs.iter_mut() {
                x.archive_offset = off;
                x.archive_size = 64 << 20;
                off += 64 << 20;
            }
        });
        for (name, count) in [("200", 200u32), ("4000", 4000)] {
            m(&format!("desc.many_adjacent_64MiB(n={})", name), &|d| {
                let proto = d.descs[0].clone();
                let mut off = 0u64;
                d.descs = (0..count)
                    .map(|i| {
                        let mut x = proto.clone();
                        let hl = x.checksum.len().max(1).min(64);
                        x.checksum = crate::util::b2(&i.to_le_bytes())[..hl].to_vec();
                        x.archive_offset = off;
                        x.archive_size = 64 << 20;
                        off += 64 << 20;
                        x
                    })
                    .collect();
                d.rebuild_order = (0..count).collect();
            });
        }
        m("desc.duplicate", &|d| {
            let x = d.descs[0].clone();
            d.descs.push(x);
        });
        // chunker parameters
        for (name, v) in [("0", 0u32), ("25", 25), ("31", 31), ("32", 32), ("33", 33), ("u32max", u32::MAX)] {
            m(&format!("params.filter_bits={}", name), &|d| d.params.as_mut().unwrap().filter_bits = v);
        }
        for (name, v) in [("0", 0u32), ("1", 1), ("4096", 4096), ("1MiB", 1 << 20), ("u32max", u32::MAX)] {
            m(&format!("params.window={}", name), &|d| d.params.as_mut().unwrap().window = v);
        }
        for (name, v) in [("0", 0u32), ("1", 1), ("u32max", u32::MAX)] {
            m(&format!("params.max={}", name), &|d| d.params.as_mut().unwrap().max = v);
            m(&format!("params.min={}", name), &|d| d.params.as_mut().unwrap().min = v);
        }
        m("params.min>max", &|d| {
            let p = d.params.as_mut().unwrap();
            p.min = p.max + 5;
        });
        m("params.window>max", &|d| {
            let p = d.params.as_mut().unwrap();
            p.window = 64;
            p.max = 20;
            p.min = 4;
        });
        for (name, v) in [("0", 0u32), ("3", 3), ("65", 65), ("u32max", u32::MAX)] {
            m(&format!("params.hash_len={}", name), &|d| d.params.as_mut().unwrap().hash_len = v);
        }
        for (name, v) in [("3", 3u32), ("100", 100), ("i32max", i32::MAX as u32), ("u32max", u32::MAX)] {
            m(&format!("params.algo={}", name), &|d| d.params.as_mut().unwrap().algo = v);
        }
        m("params.missing", &|d| d.params = None);
        m("params.all_zero", &|d| d.params = Some(Default::default()));
        // compression
        for (name, v) in [("4", 4u32), ("100", 100), ("u32max", u32::MAX)] {
            m(&format!("compression.type={}", name), &|d| d.compression.as_mut().unwrap().0 = v);
        }
        for t in 0..4u32 {
            m(&format!("compression.type_switched_to={}", t), &|d| d.compression.as_mut().unwrap().0 = t);
        }
        m("compression.level=u32max", &|d| d.compression.as_mut().unwrap().1 = u32::MAX);
        m("compression.missing", &|d| d.compression = None);
        // source fields
        m("source_total_size=0", &|d| d.source_total_size = 0);
        m("source_total_size=u64max", &|d| d.source_total_size = u64::MAX);
        m("source_total_size=1TiB", &|d| d.source_total_size = 1 << 40);
        m("source_checksum.empty", &|d| d.source_checksum.clear());
        m("source_checksum.len=3", &|d| d.source_checksum.truncate(3));
        m("app_version.long", &|d| d.app_version = "v".repeat(5000));
        m("metadata.many", &|d| d.metadata = (0..300).map(|i| (format!("k{}", i), vec![i as u8; 10])).collect());
        // chunk data offset
        for (name, v) in [("0", 0u64), ("14", 14), ("u64max", u64::MAX), ("2^63", 1 << 63), ("past_eof", 1 << 30)] {
            out.push(assemble(&format!("{}/chunk_data_offset={}", algo, name), &dict, Some(v), &body));
        }
        // payload corruption under a valid header
        {
            let mut b = body.clone();
            for x in b.iter_mut() {
                *x = rng.below(256) as u8;
            }
            out.push(assemble(&format!("{}/payload.random(comp={})", algo, comp.0), &dict, None, &b));
            let mut b = body.clone();
            for _ in 0..5 {
                let k = rng.usize_below(b.len());
                b[k] ^= 1 << rng.below(8);
            }
            out.push(assemble(&format!("{}/payload.bitflips(comp={})", algo, comp.0), &dict, None, &b));
            out.push(assemble(&format!("{}/payload.truncated(comp={})", algo, comp.0), &dict, None, &body[..body.len() / 2]));
            out.push(assemble(&format!("{}/payload.empty(comp={})", algo, comp.0), &dict, None, &[]));
        }
    }
    // Deep payload corruption: chunks of several KiB that are really stored compressed, so
    // that a decoder has consumed a long valid prefix when it meets the damage (flipped bits
    // at sampled positions, a zeroed stretch, a payload cut short and padded, payloads of two
    // chunks exchanged, declared source sizes smaller / larger than what the payload holds).
    for comp in [(3u32, 5u32), (2, 3), (1, 2), (3, 11), (2, 19)] {
        let n = rng.urange(3000, 9000);
        let mut src = Vec::new();
        for _ in 0..4 {
            src.extend(gen::gen_source(rng, gen::SrcClass::LowEntropy, n));
        }
        let spec = ArchiveSpec::plain(Cfg::fixed(n), 16, comp);
        let Ok(e) = enc::encode_archive(&src, &spec) else { continue };
        let body = e.bytes[e.chunk_data_offset as usize..].to_vec();
        let dict = e.dict;
        let compressed: Vec<usize> = (0..dict.descs.len()).filter(|&i| dict.descs[i].archive_size < dict.descs[i].source_size && dict.descs[i].archive_size > 16).collect();
        if compressed.len() < 2 {
            continue;
        }
        let cname = ["none", "lzma", "zstd", "brotli"][comp.0 as usize];
        let span = |i: usize| (dict.descs[i].archive_offset as usize, dict.descs[i].archive_size as usize);
        for k in 0..6 {
            let i = *rng.pick(&compressed);
            let (o, l) = span(i);
            let mut b = body.clone();
            // positions spread over the payload: header bytes, early, middle, late, last byte
            let pos = match k {
                0 => rng.usize_below(4.min(l)),
                1 => l - 1,
                _ => rng.usize_below(l),
            };
            b[o + pos] ^= 1 << rng.below(8);
            out.push(assemble(&format!("deep/{}/payload.bitflip@{}", cname, ["head", "last", "any", "any", "any", "any"][k]), &dict, None, &b));
        }
        {
            let i = *rng.pick(&compressed);
            let (o, l) = span(i);
            let mut b = body.clone();
            let a = l / 3;
            for x in &mut b[o + a..o + a + (l / 3).max(1)] {
                *x = 0;
            }
            out.push(assemble(&format!("deep/{}/payload.zeroed_stretch", cname), &dict, None, &b));
            let mut b = body.clone();
            let cut = rng.urange(1, l - 1);
            for x in &mut b[o + cut..o + l] {
                *x = 0xff;
            }
            out.push(assemble(&format!("deep/{}/payload.tail_overwritten", cname), &dict, None, &b));
            // exchange the payloads of two compressed chunks (descriptors keep their hashes)
            let j = *compressed.iter().find(|&&j| j != i).unwrap();
            let mut d = dict.clone();
            let (a1, a2) = (d.descs[i].archive_offset, d.descs[j].archive_offset);
            let (s1, s2) = (d.descs[i].archive_size, d.descs[j].archive_size);
            d.descs[i].archive_offset = a2;
            d.descs[i].archive_size = s2;
            d.descs[j].archive_offset = a1;
            d.descs[j].archive_size = s1;
            out.push(assemble(&format!("deep/{}/payload.exchanged", cname), &d, None, &body));
            // the payload inflates to n bytes, the descriptor says fewer / more
            for (nm, f) in [("smaller", 0.5f64), ("one_less", -1.0), ("one_more", -2.0), ("double", 2.0)] {
                let mut d = dict.clone();
                let ss = d.descs[i].source_size;
                d.descs[i].source_size = if f == -1.0 { ss - 1 } else if f == -2.0 { ss + 1 } else { (ss as f64 * f) as u32 };
                out.push(assemble(&format!("deep/{}/desc.source_size_{}_than_payload", cname, nm), &d, None, &body));
            }
            // stored size one short / one long: the decoder sees a truncated / over-long stream
            for (nm, delta) in [("short_by_1", -1i64), ("short_by_half", -((l / 2) as i64)), ("long_by_7", 7)] {
                let mut d = dict.clone();
                d.descs[i].archive_size = (d.descs[i].archive_size as i64 + delta).max(1) as u32;
                out.push(assemble(&format!("deep/{}/desc.archive_size_{}", cname, nm), &d, None, &body));
            }
        }
    }
    // Decompression bombs: a chunk that inflates far beyond its declared source size
    // (and beyond the RSS bound).
    out.extend(bombs());
    out
}

/// Stream `mib` MiB of zeros through a compressor without holding them in memory.
fn bomb_payload(ct: u32, mib: usize) -> Option<Vec<u8>> {
    use std::io::Write;
    let block = vec![0u8; 1 << 20];
    let mut out = Vec::new();
    match ct {
        2 => {
            let mut e = zstd::stream::Encoder::new(&mut out, 1).ok()?;
            for _ in 0..mib {
                e.write_all(&block).ok()?;
            }
            e.finish().ok()?;
        }
        3 => {
            let params = brotli::enc::BrotliEncoderParams { quality: 1, ..Default::default() };
            let mut w = brotli::CompressorWriter::with_params(&mut out, 1 << 20, &params);
            for _ in 0..mib {
                w.write_all(&block).ok()?;
            }
            w.flush().ok()?;
            drop(w);
        }
        _ => {
            let mut w = lzma::LzmaWriter::new_compressor(&mut out, 0).ok()?;
            for _ in 0..mib {
                w.write_all(&block).ok()?;
            }
            w.finish().ok()?;
        }
    }
    Some(out)
}

fn bombs() -> Vec<Hostile> {
    static CACHE: std::sync::OnceLock<Vec<(u32, &'static str, Vec<u8>)>> = std::sync::OnceLock::new();
    let payloads = CACHE.get_or_init(|| {
        let kinds: Vec<(u32, &'static str)> = vec![(2, "zstd"), (3, "brotli"), (1, "lzma")];
        crate::util::par_map(kinds.len(), 3, |i| (kinds[i].0, kinds[i].1, bomb_payload(kinds[i].0, 1024).unwrap_or_default()))
    });
    let mut out = Vec::new();
    for (ct, name, c) in payloads {
        if c.is_empty() {
            continue;
        }
        // Declared sizes below and above the pieces a decoder hands out at a time (a few
        // KiB .. 128 KiB): the bound is on the accumulated output, not on one piece.
        for (dname, declared) in [("100B", 100u32), ("64KiB", 64 << 10), ("1MiB", 1 << 20)] {
            let d = Dict {
                app_version: "x".into(),
                source_checksum: crate::util::b2(b"x").to_vec(),
                source_total_size: declared as u64,
                params: Some(enc::params_of(&Cfg::fixed(declared as usize), 16)),
                compression: Some((*ct, 1)),
                rebuild_order: vec![0],
                descs: vec![Desc { checksum: vec![9; 16], archive_size: c.len() as u32, archive_offset: 0, source_size: declared }],
                metadata: vec![],
                unknown_fields: 0,
            };
            let mut hz = assemble(&format!("bomb/{}(1GiB declared {})", name, dname), &d, None, c);
            hz.declared = declared as u64 + c.len() as u64;
            out.push(hz);
        }
    }
    out
}

/// Raw byte-level hostile inputs.
fn raw_inputs(rng: &mut Rng, n_random: usize) -> Vec<Hostile> {
    let mut out = Vec::new();
    for i in 0..n_random {
        let len = match rng.below(5) {
            0 => rng.urange(0, 13),
            1 => rng.urange(14, 100),
            _ => rng.urange(100, 3000),
        };
        let mut b = rng.bytes(len);
        let class = match i % 4 {
            0 => "random",
            1 => {
                if b.len() >= 6 {
                    b[..6].copy_from_slice(codec::MAGIC);
                }
                "random+magic"
            }
            2 => {
                if b.len() >= 14 {
                    b[..6].copy_from_slice(codec::MAGIC);
                    let sz = (b.len() as u64).saturating_sub(14 + 72).min(rng.below(400));
                    b[6..14].copy_from_slice(&sz.to_le_bytes());
                }
                "random+magic+plausible_size"
            }
            _ => {
                // valid framing and checksum around a random dictionary
                let l = rng.urange(0, 200);
                let d = rng.bytes(l);
                let mut h = codec::build_header(&d, rng.chance(1, 5), None);
                let extra = rng.urange(0, 300);
                h.extend(rng.bytes(extra));
                b = h;
                "random_dictionary+valid_checksum"
            }
        };
        out.push(Hostile { class: class.to_string(), bytes: b, declared: 0 });
    }
    // dictionary size field extremes (no valid checksum possible / needed)
    for (name, v) in [("u64max", u64::MAX), ("2^63", 1u64 << 63), ("2^40", 1 << 40), ("2^33", 1 << 33), ("u64max-72", u64::MAX - 72), ("u64max-85", u64::MAX - 85)] {
        let mut b = codec::MAGIC.to_vec();
        b.extend_from_slice(&v.to_le_bytes());
        b.extend(rng.bytes(200));
        out.push(Hostile { class: format!("dictionary_size={}", name), bytes: b, declared: 0 });
    }
    // The same lies on files that are themselves larger than 1 MiB (readers that treat the
    // first MiB differently from the rest), and a genuinely large header cut past its first MiB.
    for (name, v) in [("1MiB+1000", (1u64 << 20) + 1000), ("filelen", 0), ("1.5x", 1), ("4MiB", 4 << 20), ("2^31", 1 << 31), ("2^40", 1 << 40), ("u64max-72", u64::MAX - 72)] {
        let len = rng.urange((1 << 20) + 200_000, (2 << 20) + 500_000);
        let v = match v {
            0 => len as u64,
            1 => len as u64 * 3 / 2,
            x => x,
        };
        let mut b = codec::MAGIC.to_vec();
        b.extend_from_slice(&v.to_le_bytes());
        b.extend(rng.bytes(len));
        out.push(Hostile { class: format!("big_file/dictionary_size={}", name), declared: b.len() as u64, bytes: b });
    }
    {
        let (_src, mut dict, body, _valid) = base_archive(rng, (0, 0), 0);
        dict.metadata = vec![("blob".to_string(), rng.bytes((2 << 20) + 12345))];
        let h = assemble("big_header", &dict, None, &body);
        let hl = h.bytes.len() - body.len();
        for (name, cut) in [("header_end-1", hl - 1), ("header_end-64", hl - 64), ("header_end-65", hl - 65), ("header_end-1000", hl - 1000), ("1MiB+15", (1 << 20) + 15), ("1.5MiB", 3 << 19), ("1MiB-1", (1 << 20) - 1)] {
            out.push(Hostile { class: format!("big_header/truncated@{}", name), bytes: h.bytes[..cut].to_vec(), declared: h.bytes.len() as u64 });
        }
        out.push(Hostile { class: "big_header/intact".to_string(), declared: h.bytes.len() as u64, bytes: h.bytes });
    }
    out
}

#[derive(Clone, Copy, Debug, PartialEq, Eq)]
enum Surface {
    Info,
    Clone,
    CloneSeedOutput,
    CloneSeed,
    InfoHttp,
    CloneHttp,
}

impl Surface {
    fn name(&self) -> &'static str {
        match self {
            Surface::Info => "info",
            Surface::Clone => "clone",
            Surface::CloneSeedOutput => "clone--seed-output",
            Surface::CloneSeed => "clone--seed",
            Surface::InfoHttp => "info(http)",
            Surface::CloneHttp => "clone(http)",
        }
    }
}

const RSS_BASE_KB: i64 = 512 * 1024;

/// Run one surface on one hostile archive; Some(failure kind) on violation.
fn run_surface(dir: &Path, tag: &str, h: &Hostile, surf: Surface, seed_data: &[u8]) -> (Option<String>, bool) {
    let apath = dir.join(format!("{}.cba", tag));
    let out = dir.join(format!("{}.out", tag));
    std::fs::write(&apath, &h.bytes).expect("write hostile archive");
    let _ = std::fs::remove_file(&out);
    let server = match surf {
        Surface::InfoHttp | Surface::CloneHttp => Some(Server::start(Arc::new(h.bytes.clone()), crate::httpd::well_behaved())),
        _ => None,
    };
    let archive = server.as_ref().map(|s| s.url()).unwrap_or_else(|| p(&apath));
    let args = match surf {
        Surface::Info | Surface::InfoHttp => vec![s("info"), archive],
        _ => {
            let mut cs = CloneSpec { archive, output: out.clone(), ..Default::default() };
            if surf == Surface::CloneSeedOutput {
                std::fs::write(&out, seed_data).unwrap();
                cs.seed_output = true;
            }
            if surf == Surface::CloneSeed {
                let sp = dir.join(format!("{}.seed", tag));
                std::fs::write(&sp, seed_data).unwrap();
                cs.seeds = vec![sp];
            }
            scn::clone_args(&cs)
        }
    };
    let mut run = Run::new(dir, tag, args);
    run.use_shim = false;
    run.rlimit_cpu_s = Some(8);
    run.rlimit_as = Some(6 << 30);
    run.rlimit_fsize = Some(1 << 30);
    run.timeout = std::time::Duration::from_secs(60);
    let o = proc::run(&run);
    drop(server);
    for f in [&apath, &out, &dir.join(format!("{}.seed", tag))] {
        let _ = std::fs::remove_file(f);
    }
    let text = o.text();
    let kind = match o.exit {
        Exit::Timeout if o.idle_hang() => Some("does not end (idle)".to_string()),
        Exit::Timeout => return (None, true),
        Exit::Code(101) => Some("panic".to_string()),
        Exit::Signal(sig) if sig == libc::SIGXCPU => Some("cpu-limit(unbounded loop)".to_string()),
        Exit::Signal(sig) if sig == libc::SIGABRT => Some(if text.contains("memory allocation of") { "abort(allocation failure)".to_string() } else { "abort".to_string() }),
        Exit::Signal(sig) if sig == libc::SIGKILL => Some("killed(cpu hard limit)".to_string()),
        Exit::Signal(sig) => Some(format!("signal {}", sig)),
        Exit::Code(_) => {
            let bound = RSS_BASE_KB + 4 * (h.declared as i64 / 1024);
            if o.maxrss_kb > bound {
                Some("rss-unbounded".to_string())
            } else {
                None
            }
        }
    };
    (kind, false)
}

fn process_engine(rep: &Report, seed: u64, tier: Tier) {
    let mut rng = Rng::new(seed).fork(0x1500);
    let mut inputs = field_mutations(&mut rng);
    if tier == Tier::Thorough {
        for _ in 0..3 {
            inputs.extend(field_mutations(&mut rng));
        }
    }
    inputs.extend(raw_inputs(&mut rng, tier.pick(600, 6000)));
    // bit flips and truncations of a valid archive (sampled in quick, all in thorough)
    {
        let (_s, _d, _b, valid) = base_archive(&mut rng, (3, 4), 1);
        let n = valid.len();
        let step = tier.pick(9, 1);
        for pos in (0..n * 8).step_by(step) {
            let mut b = valid.clone();
            b[pos / 8] ^= 1 << (pos % 8);
            inputs.push(Hostile { class: "valid_archive.bitflip".into(), bytes: b, declared: 4096 });
        }
        for t in (0..n).step_by(tier.pick(3, 1)) {
            inputs.push(Hostile { class: "valid_archive.truncated".into(), bytes: valid[..t].to_vec(), declared: 4096 });
        }
    }
    let seed_data = {
        let mut r = Rng::new(seed ^ 0x5eed);
        let mut v = gen::gen_source(&mut r, gen::SrcClass::ZeroRuns, 3000);
        v.extend(r.bytes(2000));
        v
    };
    let dir = scn::case_dir("C15", 0);
    let surfaces = [Surface::Info, Surface::Clone, Surface::CloneSeedOutput, Surface::CloneSeed, Surface::InfoHttp, Surface::CloneHttp];
    let jobs: Vec<(usize, Surface)> = inputs
        .iter()
        .enumerate()
        .flat_map(|(i, h)| {
            let all = !h.class.starts_with("random") && !h.class.starts_with("valid_archive");
            surfaces
                .iter()
                .enumerate()
                .filter(move |(si, _)| all || (i + si) % 3 == 0 || *si == 0)
                .map(move |(_, s)| (i, *s))
        })
        .collect();
    let res = par_map(jobs.len(), crate::util::ncpu(), |j| {
        let (i, surf) = jobs[j];
        run_surface(&dir, &format!("j{}", j), &inputs[i], surf, &seed_data)
    });
    let mut seen_sig = std::collections::HashSet::new();
    for (j, (kind, timeout)) in res.into_iter().enumerate() {
        let (i, surf) = jobs[j];
        let h = &inputs[i];
        rep.eval();
        if timeout {
            rep.inconclusive("watchdog");
            continue;
        }
        rep.count(&format!("process.{}", surf.name()), 1);
        rep.seen("mutation_classes", h.class.clone());
        rep.nontrivial(format!("{}@{}#{}", h.class, surf.name(), crate::util::short_id(&h.bytes)));
        if let Some(kind) = kind {
            let sig = format!("c15/{}/{}/{}", surf.name(), h.class, kind);
            if seen_sig.insert(sig.clone()) {
                rep.violation(
                    &sig,
                    json!({"surface": surf.name(), "class": h.class, "failure": kind, "archive_hex": if h.bytes.len() <= 1500 { hex(&h.bytes) } else { format!("({} bytes)", h.bytes.len()) }}),
                    json!({"engine": "process", "surface": surf.name(), "class": h.class, "archive_hex": if h.bytes.len() <= 200_000 { hex(&h.bytes) } else { String::new() }, "declared": h.declared, "seed": seed, "thorough": tier == Tier::Thorough}),
                );
            }
        }
    }
    scn::cleanup(&dir, false);
    rep.sample(json!({"example_classes": inputs.iter().map(|h| h.class.clone()).take(12).collect::<Vec<_>>(), "inputs": inputs.len(), "process_runs": jobs.len()}));
}

/// Lying servers against info/clone over HTTP.
/// Responses whose *headers* are hostile while status and body may be perfectly fine: each
/// entry is (name, status line, extra header lines, send the correct body?, declare the
/// correct Content-Length?). Sent raw, connection closed afterwards.
fn header_lies() -> Vec<(&'static str, &'static str, Vec<Vec<u8>>, bool, bool)> {
    let h = |x: &str| x.as_bytes().to_vec();
    let mut v: Vec<(&'static str, &'static str, Vec<Vec<u8>>, bool, bool)> = vec![
        ("content-range */0", "HTTP/1.1 206 Partial Content", vec![h("Content-Range: */0")], true, true),
        ("content-range *", "HTTP/1.1 206 Partial Content", vec![h("Content-Range: *")], true, true),
        ("content-range unit only", "HTTP/1.1 206 Partial Content", vec![h("Content-Range: bytes")], true, true),
        ("content-range empty", "HTTP/1.1 206 Partial Content", vec![h("Content-Range:")], true, true),
        ("content-range without unit", "HTTP/1.1 206 Partial Content", vec![h("Content-Range: 0-9/9")], true, true),
        ("content-range bytes */*", "HTTP/1.1 206 Partial Content", vec![h("Content-Range: bytes */*")], true, true),
        ("content-range reversed", "HTTP/1.1 206 Partial Content", vec![h("Content-Range: bytes 9-2/1")], true, true),
        ("content-range beyond u64", "HTTP/1.1 206 Partial Content", vec![h("Content-Range: bytes 18446744073709551616-18446744073709551617/2")], true, true),
        ("content-range with =", "HTTP/1.1 206 Partial Content", vec![h("Content-Range: bytes=0-1")], true, true),
        ("content-range other offset", "HTTP/1.1 206 Partial Content", vec![h("Content-Range: bytes 1-2/3")], true, true),
        ("content-range not utf-8", "HTTP/1.1 206 Partial Content", vec![b"Content-Range: by\xfftes \xc3\x28 1-\xf0\x9f".to_vec()], true, true),
        ("content-range multi-byte at byte 5", "HTTP/1.1 206 Partial Content", vec![b"Content-Range: byte\xc3\xa9 0-1/2".to_vec()], true, true),
        ("content-range 10 kB", "HTTP/1.1 206 Partial Content", vec![format!("Content-Range: bytes {}", "9".repeat(10_000)).into_bytes()], true, true),
        ("content-length negative", "HTTP/1.1 206 Partial Content", vec![h("Content-Length: -5")], true, false),
        ("content-length not a number", "HTTP/1.1 206 Partial Content", vec![h("Content-Length: abc")], true, false),
        ("content-length beyond u64", "HTTP/1.1 206 Partial Content", vec![h("Content-Length: 18446744073709551616")], true, false),
        ("two different content-lengths", "HTTP/1.1 206 Partial Content", vec![h("Content-Length: 3"), h("Content-Length: 70000")], true, false),
        ("no content-length", "HTTP/1.1 206 Partial Content", vec![], true, false),
        ("chunked with a bad chunk size", "HTTP/1.1 206 Partial Content", vec![h("Transfer-Encoding: chunked")], true, false),
        ("content-encoding gzip on raw bytes", "HTTP/1.1 206 Partial Content", vec![h("Content-Encoding: gzip")], true, true),
        ("content-encoding br on raw bytes", "HTTP/1.1 206 Partial Content", vec![h("Content-Encoding: br")], true, true),
        ("status line without reason", "HTTP/1.1 206", vec![], true, true),
        ("http/1.0", "HTTP/1.0 206 Partial Content", vec![], true, true),
        ("status 999", "HTTP/1.1 999 Whatever", vec![], true, true),
        ("status 100 and nothing else", "HTTP/1.1 100 Continue", vec![], false, false),
        ("status 204", "HTTP/1.1 204 No Content", vec![], false, false),
        ("status 304", "HTTP/1.1 304 Not Modified", vec![], false, false),
        ("redirect to itself", "HTTP/1.1 301 Moved Permanently", vec![h("Location: /a.cba")], false, true),
        ("redirect without location", "HTTP/1.1 302 Found", vec![], false, true),
        ("redirect to a bad url", "HTTP/1.1 307 Temporary Redirect", vec![b"Location: http://[::1\xff/".to_vec()], false, true),
        ("header without colon", "HTTP/1.1 206 Partial Content", vec![h("this line is not a header")], true, true),
        ("100 kB header line", "HTTP/1.1 206 Partial Content", vec![format!("X-Pad: {}", "a".repeat(100_000)).into_bytes()], true, true),
        ("accept-ranges none", "HTTP/1.1 206 Partial Content", vec![h("Accept-Ranges: none")], true, true),
    ];
    // handled specially by the server script: every request is answered with a redirect to a
    // URL that has not been visited yet
    v.push(("endless chain of redirects to new URLs", "HTTP/1.1 302 Found", vec![], false, true));
    let many: Vec<Vec<u8>> = (0..2000).map(|i| format!("X-H{}: v", i).into_bytes()).collect();
    v.push(("2000 headers", "HTTP/1.1 206 Partial Content", many, true, true));
    v
}

fn header_lie_response(lie: &(&'static str, &'static str, Vec<Vec<u8>>, bool, bool), correct: &[u8]) -> Vec<u8> {
    let mut r = Vec::new();
    r.extend_from_slice(lie.1.as_bytes());
    r.extend_from_slice(b"\r\n");
    let body: &[u8] = if lie.3 { correct } else { b"" };
    if lie.4 {
        r.extend_from_slice(format!("Content-Length: {}\r\n", body.len()).as_bytes());
    }
    for l in &lie.2 {
        r.extend_from_slice(l);
        r.extend_from_slice(b"\r\n");
    }
    r.extend_from_slice(b"Connection: close\r\n\r\n");
    if lie.0.starts_with("chunked") {
        r.extend_from_slice(b"ffffffffffffffffff\r\n");
    }
    r.extend_from_slice(body);
    r
}

fn server_engine(rep: &Report, seed: u64, tier: Tier) {
    let n = tier.pick(900, 6000);
    let hlies = Arc::new(header_lies());
    let case = |i: usize, timeout_s: u64| {
        let mut rng = Rng::new(seed).fork(0x1510 + i as u64);
        let comp = *rng.pick(&[(0u32, 0u32), (3, 4), (2, 3)]);
        // One case in fifteen: a clone that needs two separate chunk-data requests (a seed
        // holds a chunk in between) from a server whose answer to the first of them never
        // ends — the requested bytes are followed by junk for as long as the client listens.
        let endless = i % 15 == 7;
        let kind = if endless { 0 } else { rng.below(3) };
        let comp = if endless { (0u32, 0u32) } else { comp };
        let (src, d0, _b, valid) = base_archive(&mut rng, comp, kind);
        let target = rng.below(4);
        let how = if rng.chance(1, 2) { rng.below(13) } else { 13 + rng.below(hlies.len() as u64) };
        // fixed-size chunks of n bytes: the seed holds the second one
        let endless_seed: Option<Vec<u8>> = if endless {
            let n = d0.params.as_ref().map(|p| p.max as usize).unwrap_or(0);
            if n > 0 && src.len() >= 3 * n { Some(src[n..2 * n].to_vec()) } else { None }
        } else {
            None
        };
        let endless = endless_seed.is_some();
        let cdo = crate::refimpl::codec::parse_archive(&valid).map(|p| p.chunk_data_offset).unwrap_or(u64::MAX);
        // A third of the servers keep lying from that request on (a truncated file on a
        // static server, a broken proxy): the client must give up, not ask forever.
        let persistent = rng.chance(1, 3);
        let lie_seed = rng.next_u64();
        let names = ["extra bytes", "long content-length", "short content-length", "wrong status + html", "empty body", "status 200 whole file", "random bytes longer than asked", "416 empty body", "half of the requested bytes", "connection closed without a reply", "a reply that is not HTTP", "content-length 2^62", "content-length 2^40"];
        let lie_name = if endless { "first of two chunk-data responses never ends".to_string() } else if how < 13 { names[how as usize].to_string() } else { format!("headers: {}", hlies[how as usize - 13].0) };
        let desc = format!("request#{}{}:{}", target, if persistent { "+" } else { "" }, lie_name);
        let hl = hlies.clone();
        let endless_fired = Arc::new(std::sync::atomic::AtomicBool::new(false));
        let server = Server::start(
            Arc::new(valid.clone()),
            Arc::new(move |req, f| {
                if endless {
                    // the first request for chunk data gets the endless answer, everything else is honest
                    return match req.range {
                        Some((a, _)) if a >= cdo && !endless_fired.swap(true, std::sync::atomic::Ordering::SeqCst) => Action::Endless,
                        _ => Action::Full,
                    };
                }
                let chain = how >= 13 && hl[how as usize - 13].0.starts_with("endless chain");
                if req.n < target || (req.n > target && !persistent && !chain) {
                    return Action::Full;
                }
                let (a, b) = req.range.unwrap_or((0, 0));
                let len = (b + 1 - a) as usize;
                let mut rng = Rng::new(lie_seed);
                let correct = f[(a as usize).min(f.len())..(a as usize + len).min(f.len())].to_vec();
                match how {
                    h if h >= 13 && hl[h as usize - 13].0.starts_with("endless chain") => {
                        Action::Raw(format!("HTTP/1.1 302 Found\r\nLocation: /hop/{}/a.cba\r\nContent-Length: 0\r\nConnection: close\r\n\r\n", req.n + 1).into_bytes())
                    }
                    h if h >= 13 => Action::Raw(header_lie_response(&hl[h as usize - 13], &correct)),
                    11 => Action::Custom { status: 206, declared_len: Some(1 << 62), body: correct },
                    12 => Action::Custom { status: 206, declared_len: Some(1 << 40), body: correct },
                    9 => Action::Drop,
                    10 => Action::Raw(b"SSH-2.0-OpenSSH_9.2\r\n\x00\x01garbage".to_vec()),
                    7 => Action::Custom { status: 416, declared_len: None, body: vec![] },
                    8 => Action::Custom { status: 206, declared_len: None, body: correct[..correct.len() / 2].to_vec() },
                    0 => {
                        let mut body = correct;
                        let extra = rng.urange(1, 5000);
                        body.extend(rng.bytes(extra));
                        Action::Custom { status: 206, declared_len: None, body }
                    }
                    1 => Action::Custom { status: 206, declared_len: Some(len as u64 + rng.range(1, 1000)), body: correct },
                    2 => Action::Custom { status: 206, declared_len: Some((len as u64).saturating_sub(rng.range(1, 10))), body: correct },
                    3 => Action::Custom { status: *rng.pick(&[301u16, 403, 404, 416, 500, 503]), declared_len: None, body: b"<html>nope</html>".to_vec() },
                    4 => Action::Custom { status: 206, declared_len: None, body: vec![] },
                    5 => Action::Custom { status: 200, declared_len: None, body: f.to_vec() },
                    _ => {
                        let l = len + rng.urange(1, 100_000);
                        Action::Custom { status: 206, declared_len: None, body: rng.bytes(l) }
                    }
                }
            }),
        );
        let dir = scn::case_dir("C15", 1000 + i);
        let out = dir.join("o.bin");
        let args = if let Some(sd) = &endless_seed {
            let sp = dir.join("seed.bin");
            std::fs::write(&sp, sd).unwrap();
            scn::clone_args(&CloneSpec { archive: server.url(), output: out, seeds: vec![sp], ..Default::default() })
        } else if i % 3 == 0 {
            vec![s("info"), server.url()]
        } else {
            scn::clone_args(&CloneSpec { archive: server.url(), output: out, retries: if i % 2 == 0 { Some(2) } else { None }, buffered: [None, Some(1), Some(4)][(i / 6) % 3], ..Default::default() })
        };
        let mut run = Run::new(&dir, "srv", args);
        run.use_shim = false;
        run.rlimit_cpu_s = Some(8);
        run.rlimit_as = Some(6 << 30);
        run.timeout = std::time::Duration::from_secs(timeout_s);
        let o = proc::run(&run);
        let requests = server.take_log().len();
        drop(server);
        scn::cleanup(&dir, false);
        let kind = match o.exit {
            Exit::Timeout => return (desc, None, true, o.cpu_ms, requests),
            Exit::Code(101) => Some("panic"),
            Exit::Signal(x) if x == libc::SIGXCPU => Some("cpu-limit(unbounded loop)"),
            Exit::Signal(_) => Some("abort/signal"),
            Exit::Code(_) => if o.maxrss_kb > RSS_BASE_KB { Some("rss-unbounded") } else { None },
        };
        (desc, kind, false, o.cpu_ms, requests)
    };
    let res = par_map(n, crate::util::ncpu(), |i| (i, case(i, 25)));
    let mut seen_sig = std::collections::HashSet::new();
    // A case that hit the wall-clock watchdog is run again, alone, with a longer limit (at
    // most six of them). Only if it does not end then either — the process sits idle (it
    // would have been stopped by RLIMIT_CPU otherwise) although every request it made was
    // answered or closed — is it a verdict: "processing any response ends in success or a
    // reported error". A single timeout under load stays inconclusive.
    let mut reruns = 0;
    for (i, (desc, kind, timeout, _cpu, _reqs)) in res {
        rep.eval();
        let (mut desc, mut kind) = (desc, kind);
        let mut timeout = timeout;
        if timeout {
            if reruns < 6 {
                reruns += 1;
                let (desc2, kind2, timeout2, cpu_ms, reqs) = case(i, 60);
                rep.eval();
                if timeout2 {
                    let lie = format!("{}{}", desc2.splitn(2, ':').nth(1).unwrap_or(""), if desc2.contains('+') { " (persistent)" } else { "" });
                    let sig = format!("c15/server/{}/does not end (idle)", lie);
                    if seen_sig.insert(sig.clone()) {
                        rep.violation(&sig, json!({"lie": desc2, "failure": "the command did not end within 25 s in the parallel run nor within 60 s when run again alone", "cpu_ms_used": cpu_ms, "requests_made": reqs, "case": i}), json!({"engine": "server", "seed": seed}));
                    }
                    continue;
                }
                rep.count("process.server_cases_that_ended_when_run_again_alone", 1);
                desc = desc2;
                kind = kind2;
                timeout = false;
            }
        }
        if timeout {
            rep.inconclusive("watchdog");
            continue;
        }
        rep.count("process.lying_server_runs", 1);
        let lie = format!("{}{}", desc.splitn(2, ':').nth(1).unwrap_or(""), if desc.contains('+') { " (persistent)" } else { "" });
        rep.seen("server_lies", lie.clone());
        if let Some(k) = kind {
            let sig = format!("c15/server/{}/{}", lie, k);
            if seen_sig.insert(sig.clone()) {
                rep.violation(&sig, json!({"lie": desc, "failure": k}), json!({"engine": "server", "seed": seed}));
            }
        }
    }
}

// ---------------------------------------------------------------------------
// Library worker

/// One library case under catch_unwind: open, inspect, index, scan a small seed with
/// the archive's chunker, stream + decompress + verify every chunk, with an item cap.
fn lib_case(bytes: &[u8]) -> Result<(), String> {
    use crate::inst::{FragPlan, FragSource, PendPlan};
    use futures_util::StreamExt;
    let data = Arc::new(bytes.to_vec());
    crate::util::catch(|| {
        crate::exec::block_on_busy(
            async {
                let reader = bitar::archive_reader::IoReader::new(FragSource::new(data.clone(), FragPlan::All, PendPlan::Never));
                let mut a = match bitar::Archive::try_init(reader).await {
                    Ok(a) => a,
                    Err(_) => return Ok(()),
                };
                let _ = crate::lib_drv::accessors(&a);
                let idx = a.build_source_index();
                let n_src = a.iter_source_chunks().count();
                let _ = n_src;
                // scan a small seed with the archive's chunker; runaway = too many items
                let seed: Vec<u8> = (0..4000u32).map(|i| if i % 7 < 3 { 0 } else { (i * 31) as u8 }).collect();
                let mut ch = a.chunker_config().new_chunker(FragSource::plain(seed));
                let mut items = 0;
                while let Some(r) = ch.next().await {
                    if r.is_err() {
                        break;
                    }
                    items += 1;
                    if items > 20_000 {
                        return Err("chunker produces chunks without bound on a 4000-byte seed".to_string());
                    }
                }
                let mut st = a.chunk_stream(&idx);
                let mut got = 0;
                while let Some(r) = st.next().await {
                    match r {
                        Err(_) => break,
                        Ok(c) => {
                            if let Ok(d) = c.decompress() {
                                let _ = d.verify();
                            }
                        }
                    }
                    got += 1;
                    if got > 100_000 {
                        return Err("chunk stream does not end".to_string());
                    }
                }
                Ok(())
            },
            2_000_000,
        )
        .unwrap_or(Err("poll budget exhausted (hang)".to_string()))
    })
    .and_then(|x| x)
}

/// Worker: reads cases from a file, journals the current case index, prints failures.
pub fn worker_lib(cases_path: &str) -> i32 {
    let v: Value = serde_json::from_str(&std::fs::read_to_string(cases_path).expect("cases")).expect("json");
    let journal = format!("{}.journal", cases_path);
    let start: usize = std::fs::read_to_string(format!("{}.resume", cases_path)).ok().and_then(|s| s.trim().parse().ok()).unwrap_or(0);
    let arr = v.as_array().unwrap();
    for (i, c) in arr.iter().enumerate().skip(start) {
        std::fs::write(&journal, i.to_string()).unwrap();
        let bytes = crate::util::unhex(c["hex"].as_str().unwrap());
        if let Err(e) = lib_case(&bytes) {
            println!("FAIL {} {}", i, e.replace('\n', " "));
        }
    }
    std::fs::write(&journal, "done").unwrap();
    0
}

fn library_engine(rep: &Report, seed: u64, tier: Tier) {
    let mut rng = Rng::new(seed).fork(0x1520);
    let mut inputs = field_mutations(&mut rng);
    // drop the bombs here (64 MiB allocations are legitimate-ish but slow under the cap)
    inputs.retain(|h| !h.class.starts_with("bomb"));
    inputs.extend(raw_inputs(&mut rng, tier.pick(20_000, 200_000)));
    // random mutations of valid R2 archives at byte level
    for _ in 0..tier.pick(30_000, 300_000) {
        let comp = *rng.pick(&[(0u32, 0u32), (3, 4), (2, 3), (1, 2)]);
        let kind = rng.below(3);
        let (_s, _d, _b, valid) = base_archive(&mut rng, comp, kind);
        let mut b = valid;
        match rng.below(3) {
            0 => {
                let k = rng.usize_below(b.len());
                b[k] ^= 1 << rng.below(8);
            }
            1 => {
                let t = rng.usize_below(b.len());
                b.truncate(t);
            }
            _ => {
                // mutate inside the dictionary and fix up the checksum
                if let Ok(pz) = codec::parse_archive(&b) {
                    let dend = 14 + pz.dict_size as usize;
                    let k = 14 + rng.usize_below(pz.dict_size.max(1) as usize);
                    b[k] = rng.below(256) as u8;
                    let sum = crate::util::b2(&b[..dend + 8]);
                    b[dend + 8..dend + 72].copy_from_slice(&sum);
                }
            }
        }
        inputs.push(Hostile { class: "valid_archive.random_mutation".into(), bytes: b, declared: 0 });
    }
    let shards = crate::util::ncpu();
    let per = inputs.len().div_ceil(shards);
    let dir = scn::case_dir("C15", 2);
    let res = par_map(shards, shards, |sh| {
        let lo = sh * per;
        let hi = ((sh + 1) * per).min(inputs.len());
        if lo >= hi {
            return (0usize, vec![]);
        }
        let cases: Vec<Value> = inputs[lo..hi].iter().map(|h| json!({"hex": hex(&h.bytes)})).collect();
        let path = dir.join(format!("cases{}.json", sh));
        std::fs::write(&path, serde_json::to_string(&cases).unwrap()).unwrap();
        let mut fails: Vec<(usize, String)> = Vec::new();
        let mut resume = 0usize;
        let exe = std::env::current_exe().unwrap();
        for _attempt in 0..200 {
            std::fs::write(format!("{}.resume", path.display()), resume.to_string()).unwrap();
            let mut cmd = std::process::Command::new(&exe);
            cmd.arg("worker").arg("c15lib").arg(&path).env("RUST_BACKTRACE", "0");
            unsafe {
                use std::os::unix::process::CommandExt;
                cmd.pre_exec(|| {
                    let lim = libc::rlimit { rlim_cur: 3 << 30, rlim_max: 3 << 30 };
                    libc::setrlimit(libc::RLIMIT_AS, &lim);
                    let cpu = libc::rlimit { rlim_cur: 600, rlim_max: 600 };
                    libc::setrlimit(libc::RLIMIT_CPU, &cpu);
                    Ok(())
                });
            }
            let out = cmd.output().expect("spawn worker");
            for l in String::from_utf8_lossy(&out.stdout).lines() {
                if let Some(rest) = l.strip_prefix("FAIL ") {
                    if let Some((i, msg)) = rest.split_once(' ') {
                        fails.push((lo + i.parse::<usize>().unwrap_or(0), msg.to_string()));
                    }
                }
            }
            let j = std::fs::read_to_string(format!("{}.journal", path.display())).unwrap_or_default();
            if j.trim() == "done" {
                break;
            }
            // The worker died (abort / allocation failure / signal) inside case j.
            let idx: usize = j.trim().parse().unwrap_or(resume);
            let why = if String::from_utf8_lossy(&out.stderr).contains("memory allocation of") {
                "abort(allocation failure)".to_string()
            } else {
                format!("worker died ({:?})", out.status)
            };
            fails.push((lo + idx, why));
            resume = idx + 1;
            if resume >= hi - lo {
                break;
            }
        }
        (hi - lo, fails)
    });
    let mut seen_sig = std::collections::HashSet::new();
    for (n, fails) in res {
        rep.evals(n as u64);
        rep.count("library.cases", n as u64);
        for (i, msg) in fails {
            let h = &inputs[i];
            let kind = if msg.starts_with("panic") {
                "panic"
            } else if msg.contains("allocation failure") {
                "abort(allocation failure)"
            } else if msg.contains("without bound") || msg.contains("does not end") || msg.contains("hang") {
                "unbounded"
            } else {
                "abort"
            };
            let sig = format!("c15/library/{}/{}", h.class, kind);
            if seen_sig.insert(sig.clone()) {
                rep.violation(
                    &sig,
                    json!({"class": h.class, "failure": msg, "archive_hex": if h.bytes.len() <= 1500 { hex(&h.bytes) } else { String::new() }}),
                    json!({"engine": "library", "archive_hex": hex(&h.bytes)}),
                );
            }
        }
    }
    scn::cleanup(&dir, false);
}

/// Thorough tier: valgrind memcheck over the release CLI fed corrupted payloads — the
/// only place native memory errors could come from is the C decoders (zstd, lzma) and the
/// unsafe code in dependencies handling hostile bytes.
fn memcheck_sample(rep: &Report, seed: u64) {
    let mut rng = Rng::new(seed).fork(0x15a0);
    let mut inputs: Vec<Hostile> = field_mutations(&mut rng)
        .into_iter()
        .filter(|h| h.class.contains("payload.") || h.class.contains("type_switched") || h.class.contains("desc.source_size") || h.class.contains("desc.archive_size"))
        .collect();
    // deep-payload cases first: they take the decoders furthest
    inputs.sort_by_key(|h| !h.class.starts_with("deep/"));
    inputs.truncate(96);
    let dir = scn::case_dir("C15", 3);
    let res = par_map(inputs.len(), crate::util::ncpu(), |i| {
        let h = &inputs[i];
        let apath = dir.join(format!("m{}.cba", i));
        let out = dir.join(format!("m{}.out", i));
        std::fs::write(&apath, &h.bytes).unwrap();
        let mut run = Run::new(&dir, &format!("m{}", i), scn::clone_args(&CloneSpec { archive: p(&apath), output: out.clone(), ..Default::default() }));
        run.bin = proc::Bin::Release;
        run.use_shim = false;
        run.wrapper = vec!["valgrind".into(), "--error-exitcode=97".into(), "--quiet".into(), "--leak-check=no".into()];
        run.rlimit_cpu_s = Some(300);
        run.timeout = std::time::Duration::from_secs(400);
        let o = proc::run(&run);
        let _ = std::fs::remove_file(&apath);
        let _ = std::fs::remove_file(&out);
        (i, o.exit, o.tail())
    });
    for (i, exit, tail) in res {
        rep.eval();
        match exit {
            Exit::Timeout => rep.inconclusive("memcheck watchdog"),
            Exit::Code(97) => rep.violation(
                &format!("c15/memcheck/{}", inputs[i].class),
                json!({"class": inputs[i].class, "report": tail}),
                json!({"engine": "memcheck", "seed": seed}),
            ),
            Exit::Code(101) | Exit::Signal(_) => rep.violation(
                &format!("c15/memcheck-run/{}/{}", inputs[i].class, exit.describe()),
                json!({"class": inputs[i].class, "exit": exit.describe(), "tail": tail}),
                json!({"engine": "memcheck", "seed": seed}),
            ),
            _ => rep.count("memcheck.runs_clean", 1),
        }
    }
    scn::cleanup(&dir, false);
}

/// AddressSanitizer slice (both tiers): the catalogue of hostile archives through the CLI
/// built with -Zsanitizer=address (Rust code and the bundled zstd C code instrumented).
/// The dev-profile engines above judge panics, aborts and resource use; this one adds
/// "no invalid memory access in the decoders and buffer code the hostile bytes reach".
fn asan_slice(rep: &Report, seed: u64, tier: Tier) {
    use super::asan::{self, Surf};
    let mut rng = Rng::new(seed).fork(0x15a1);
    let mut hostile = field_mutations(&mut rng);
    if tier == Tier::Thorough {
        hostile.extend(field_mutations(&mut rng));
    }
    hostile.extend(raw_inputs(&mut rng, tier.pick(80, 1500)));
    // Archives that make bita allocate gigabytes (the known finding K1 and its relatives) are
    // judged by the engines that run under exact address-space limits; the sanitizer
    // runtime cannot run under such a limit, so they are left out here.
    let inputs: Vec<(String, Vec<u8>)> = hostile
        .into_iter()
        .filter(|h| !h.class.contains("u32max") && h.declared <= (256 << 20) && h.bytes.len() <= (4 << 20))
        .map(|h| (h.class, h.bytes))
        .collect();
    rep.count("asan.inputs", inputs.len() as u64);
    let surfaces: &[Surf] = match tier {
        Tier::Quick => &[Surf::Clone, Surf::CloneSeed],
        Tier::Thorough => &[Surf::Info, Surf::Clone, Surf::CloneSeed, Surf::CloneInPlace],
    };
    asan::hostile_slice(rep, "C15", &inputs, surfaces, seed, 4);
}

pub fn run(tier: Tier, seed: u64) -> i32 {
    let rep = Report::new("C15", "exploration", tier, seed);
    // Self-test: the encoder's unmutated archives must be accepted by the real reader,
    // otherwise every "error" below would be trivial.
    {
        let mut rng = Rng::new(seed);
        for k in 0..3 {
            let (_s, _d, _b, valid) = base_archive(&mut rng, (3, 4), k);
            let dir = scn::case_dir("C15", 9);
            let ap = dir.join("v.cba");
            std::fs::write(&ap, &valid).unwrap();
            let o = proc::run(&Run::new(&dir, "selftest", vec![s("clone"), p(&ap), p(&dir.join("o"))]));
            if !o.exit.ok() {
                rep.broken(format!("base archive {} is not accepted by bita: {}", k, o.tail()));
            }
            scn::cleanup(&dir, false);
        }
    }
    process_engine(&rep, seed, tier);
    server_engine(&rep, seed, tier);
    library_engine(&rep, seed, tier);
    if tier == Tier::Thorough {
        memcheck_sample(&rep, seed);
    }
    asan_slice(&rep, seed, tier);
    if rep.seen_count("mutation_classes") < 50 {
        rep.broken("mutation catalogue did not run".into());
    }
    rep.finish(
        "hostile archives: random bytes (plain, with magic, with plausible size, random dictionary under a valid checksum), dictionary-size extremes, sampled (quick) / all (thorough) bit flips and truncations of a valid archive, and a catalogue of field mutations under a re-computed checksum written by the independent encoder (rebuild indexes, descriptor offsets/sizes/hash lengths, chunker parameters incl. 0 and extremes per algorithm, enum values, missing sub-messages, offsets, payload corruption per codec, decompression bombs); surfaces: real `bita info`, `clone`, `clone --seed-output`, `clone --seed` (local and HTTP) under RLIMIT_CPU/AS with peak-RSS bound 512 MiB + 4 x declared sizes; lying servers (extra bytes, long/short Content-Length, wrong status, empty body, whole file, oversized random body); library worker processes running open/inspect/index/seed-scan/stream/decompress/verify under catch_unwind with a journal; violation = panic (101), signal (abort, SIGXCPU = runaway), RSS beyond the bound, unbounded item stream; non-trivial = distinct (mutation class, surface, archive) cases",
        &[
            "known findings are keyed on (surface, mutation class, failure kind) in /verif/known_findings.json",
            "declared sizes in mutated dictionaries stay <= 16 MiB so that the RSS bound separates legitimate use from runaway allocation",
        ],
        json!({}),
        false,
    )
}

pub fn replay(v: &Value) -> i32 {
    let r = &v["replay"];
    let engine = r["engine"].as_str().unwrap_or("");
    if engine == "asan" {
        return super::asan::replay_hostile("C15", r);
    }
    if engine == "library" {
        let bytes = crate::util::unhex(r["archive_hex"].as_str().unwrap_or(""));
        // run in a worker so that an abort does not kill the replay driver
        let dir = scn::case_dir("C15", 900_000);
        let path = dir.join("cases.json");
        std::fs::write(&path, serde_json::to_string(&json!([{"hex": hex(&bytes)}])).unwrap()).unwrap();
        let out = std::process::Command::new(std::env::current_exe().unwrap()).arg("worker").arg("c15lib").arg(&path).output().unwrap();
        let so = String::from_utf8_lossy(&out.stdout).to_string();
        let bad = so.contains("FAIL") || !out.status.success();
        println!("{}{}", so, String::from_utf8_lossy(&out.stderr));
        scn::cleanup(&dir, false);
        if bad {
            println!("VIOLATION property=C15 replay=(replayed)");
            return 1;
        }
        println!("replay: property held on this case");
        return 0;
    }
    if engine == "process" {
        let mut bytes = crate::util::unhex(r["archive_hex"].as_str().unwrap_or(""));
        if bytes.is_empty() && r["seed"].is_u64() {
            // too large to be stored in the replay file: regenerate the catalogue of that run
            let mut rng = Rng::new(r["seed"].as_u64().unwrap()).fork(0x1500);
            let thorough = r["thorough"].as_bool().unwrap_or(false);
            let mut inputs = field_mutations(&mut rng);
            if thorough {
                for _ in 0..3 {
                    inputs.extend(field_mutations(&mut rng));
                }
            }
            inputs.extend(raw_inputs(&mut rng, if thorough { 6000 } else { 600 }));
            if let Some(h) = inputs.into_iter().find(|h| h.class == r["class"].as_str().unwrap_or("")) {
                bytes = h.bytes;
            }
        }
        let surf = match r["surface"].as_str().unwrap_or("") {
            "info" => Surface::Info,
            "clone" => Surface::Clone,
            "clone--seed-output" => Surface::CloneSeedOutput,
            "clone--seed" => Surface::CloneSeed,
            "info(http)" => Surface::InfoHttp,
            _ => Surface::CloneHttp,
        };
        let h = Hostile { class: r["class"].as_str().unwrap_or("").to_string(), bytes, declared: r["declared"].as_u64().unwrap_or(0) };
        let dir = scn::case_dir("C15", 900_001);
        let mut rr = Rng::new(1 ^ 0x5eed);
        let mut seed_data = gen::gen_source(&mut rr, gen::SrcClass::ZeroRuns, 3000);
        seed_data.extend(rr.bytes(2000));
        let (kind, _) = run_surface(&dir, "replay", &h, surf, &seed_data);
        scn::cleanup(&dir, false);
        return match kind {
            Some(k) => {
                println!("replay: VIOLATED: {} on {} -> {}", h.class, surf.name(), k);
                println!("VIOLATION property=C15 replay=(replayed)");
                1
            }
            None => {
                println!("replay: property held on this case");
                0
            }
        };
    }
    let seed = r["seed"].as_u64().unwrap_or(1);
    let mut rep = Report::new("C15", "exploration", Tier::Quick, seed);
    rep.replay_mode = true;
    server_engine(&rep, seed, Tier::Quick);
    if rep.violations() > 0 { 1 } else { 0 }
}

#[allow(dead_code)]
fn unused(_: Comp) {}

/// Debug helper: `bvh worker c15dump <seed> <class substring> <dir>` writes the
/// catalogue's archives of matching classes.
pub fn worker_dump(seed: u64, needle: &str, dir: &str) -> i32 {
    let mut rng = Rng::new(seed).fork(0x1500);
    let inputs = field_mutations(&mut rng);
    std::fs::create_dir_all(dir).unwrap();
    for (i, h) in inputs.iter().enumerate() {
        if h.class.contains(needle) {
            let name = format!("{}/{}-{}.cba", dir, i, h.class.replace(['/', '(', ')', '>', '='], "_"));
            std::fs::write(&name, &h.bytes).unwrap();
            println!("{}", name);
        }
    }
    0
}
