//! C10 — chunk boundaries resynchronise after differing prefixes.
//!
//! Metamorphic monitor on the implementation only (no reference chunker): the real
//! chunker is run on P1+S and P2+S; after the first boundary both place at the same
//! position of S at least one window past its start, all later chunks must agree.
use super::c09::{cfg_from, cfg_json, run_real};
use crate::evidence::{Report, Tier};
use crate::gen::{self, SrcClass};
use crate::inst::{FragPlan, PendPlan};
use crate::refimpl::chunker::{Algo, Cfg};
use crate::util::{hex, par_map, unhex, Rng};
use serde_json::{json, Value};
use std::sync::Arc;

/// Boundaries (end positions) in S coordinates (only those inside S, > 0).
fn s_boundaries(cfg: &Cfg, prefix: &[u8], s: &[u8], frag: FragPlan, pend: PendPlan) -> Result<Vec<usize>, String> {
    let mut data = prefix.to_vec();
    data.extend_from_slice(s);
    let data = Arc::new(data);
    let obs = run_real(cfg, &data, frag, pend);
    if let Some(p) = obs.panicked {
        return Err(format!("panic: {}", p));
    }
    if obs.hung || obs.error.is_some() {
        return Err("chunker did not complete".into());
    }
    let mut ends = Vec::new();
    for (off, bytes) in &obs.items {
        let end = *off as usize + bytes.len();
        if end > prefix.len() {
            ends.push(end - prefix.len());
        }
    }
    Ok(ends)
}

/// Returns Ok(Some(number of chunks after the sync point)) if a common boundary
/// exists, Ok(None) if none, Err on violation.
pub fn judge_pair(cfg: &Cfg, p1: &[u8], p2: &[u8], s: &[u8]) -> Result<Option<usize>, String> {
    judge_pair_sched(cfg, p1, p2, s, 0)
}

/// `sched` != 0: the two streams are additionally delivered under two DIFFERENT read
/// schedules (short reads of random size, Pending) derived from it — what precedes the
/// common data includes how it happened to arrive.
pub fn judge_pair_sched(cfg: &Cfg, p1: &[u8], p2: &[u8], s: &[u8], sched: u64) -> Result<Option<usize>, String> {
    let plan = |k: u64| -> (FragPlan, PendPlan) {
        if sched == 0 {
            (FragPlan::All, PendPlan::Never)
        } else {
            let m = [3usize, 17, 64, 700][((sched >> (8 * k)) & 3) as usize];
            (FragPlan::Random { seed: sched ^ (k + 1), max: m }, if (sched >> (4 + k)) & 1 == 1 { PendPlan::Every(3) } else { PendPlan::Never })
        }
    };
    let (f1, q1) = plan(0);
    let (f2, q2) = plan(1);
    let b1 = s_boundaries(cfg, p1, s, f1, q1)?;
    let b2 = s_boundaries(cfg, p2, s, f2, q2)?;
    let w = if cfg.algo == Algo::Fixed { 0 } else { cfg.window };
    let set2: std::collections::BTreeSet<usize> = b2.iter().copied().collect();
    // The final boundary (end of S) is common by construction but nothing follows it.
    let q = b1.iter().copied().find(|q| *q >= w && *q < s.len() && set2.contains(q));
    let Some(q) = q else { return Ok(None) };
    let after1: Vec<usize> = b1.iter().copied().filter(|x| *x > q).collect();
    let after2: Vec<usize> = b2.iter().copied().filter(|x| *x > q).collect();
    if after1 != after2 {
        let i = after1.iter().zip(after2.iter()).position(|(a, b)| a != b).unwrap_or(after1.len().min(after2.len()));
        return Err(format!(
            "common boundary at S-position {} (window {}), but later boundaries differ: #{} is {:?} vs {:?}",
            q,
            w,
            i,
            after1.get(i),
            after2.get(i)
        ));
    }
    Ok(Some(after1.len()))
}

fn gen_prefix(rng: &mut Rng, kind: u64, s: &[u8], cfg: &Cfg) -> Vec<u8> {
    match kind {
        0 => Vec::new(),
        1 => {
            let l = rng.urange(1, 8);
            rng.bytes(l)
        }
        2 => {
            let l = rng.urange(1, 3000);
            rng.bytes(l)
        }
        3 => {
            // ends in zeros
            let l = rng.urange(0, 200);
            let mut v = rng.bytes(l);
            let z = rng.urange(1, 3 * cfg.window.max(1) + 2);
            v.extend(std::iter::repeat(0u8).take(z));
            v
        }
        4 => {
            // ends in S's own first bytes (repeated content)
            let l = rng.urange(0, 100);
            let mut v = rng.bytes(l);
            let k = rng.urange(0, s.len().min(500));
            v.extend_from_slice(&s[..k]);
            v
        }
        5 => {
            // ends in the byte S starts with, repeated
            let b = s.first().copied().unwrap_or(0);
            let l = rng.urange(0, 50);
            let mut v = rng.bytes(l);
            let k = rng.urange(1, 2 * cfg.window.max(1) + 2);
            v.extend(std::iter::repeat(b).take(k));
            v
        }
        _ => {
            // FixedSize-aligned prefix
            let n = cfg.max.max(1);
            let k = rng.urange(0, 4);
            rng.bytes(n * k)
        }
    }
}

struct Pair {
    cfg: Cfg,
    p1: Vec<u8>,
    p2: Vec<u8>,
    s: Vec<u8>,
}

fn gen_pair(rng: &mut Rng, f5: bool) -> Pair {
    if f5 {
        // P1 empty, S = window ending non-zero + zero run + data; P2 arbitrary.
        let window = rng.urange(1, 40);
        let max = window + rng.urange(1, 200);
        let cfg = Cfg {
            algo: Algo::BuzHash,
            window,
            min: if rng.chance(1, 2) { 0 } else { rng.urange(0, max) },
            max,
            bits: rng.range(1, 4) as u32,
        };
        let mut s = rng.bytes(window);
        if *s.last().unwrap() == 0 {
            *s.last_mut().unwrap() = 7;
        }
        s.extend(std::iter::repeat(0u8).take(window + rng.urange(0, 2 * window + 3)));
        let extra = rng.urange(0, 1500);
        s.extend(rng.bytes(extra));
        let k = rng.range(1, 5);
        let p2 = gen_prefix(rng, k, &s, &cfg);
        return Pair { cfg, p1: Vec::new(), p2, s };
    }
    if rng.chance(1, 300) {
        // Hash window of several KiB over image-like data (padding holes, level shifts);
        // prefixes are padding of a different level, so the window sums of the two streams
        // reach the common data from very different values.
        let cfg = gen::gen_bigwindow_cfg(rng);
        let slen = rng.urange(80_000, 300_000);
        let mut s = gen::gen_source(rng, SrcClass::LevelShift, slen);
        if rng.chance(1, 2) {
            // Both streams are cut by the maximum size at the same place: S opens with a
            // padding hole longer than max and one prefix is padding (of another level) of a
            // whole number of max-sized chunks. The hash states then meet the common
            // boundary with entirely different histories.
            let hole = cfg.max + rng.urange(1, cfg.max);
            let mut v = vec![*rng.pick(&[0u8, 0u8, 0xff, 0x80]); hole];
            v.extend_from_slice(&s);
            s = v;
            let p2 = vec![*rng.pick(&[0x80u8, 0xff, 0xfe, 0x7f]); cfg.max * rng.urange(1, 3)];
            let p1 = if rng.chance(1, 2) { Vec::new() } else { vec![*rng.pick(&[0u8, 0xff]); cfg.max * rng.urange(1, 2)] };
            return Pair { cfg, p1, p2, s };
        }
        let mut mk = |rng: &mut Rng| -> Vec<u8> {
            match rng.below(4) {
                0 => Vec::new(),
                1 => vec![*rng.pick(&[0u8, 0x80, 0xff]); rng.urange(1, 3 * cfg.window)],
                2 => {
                    let l = rng.urange(1, 2 * cfg.window);
                    gen::gen_source(rng, SrcClass::LevelShift, l)
                }
                _ => {
                    let l = rng.urange(1, 2 * cfg.window);
                    rng.bytes(l)
                }
            }
        };
        let p1 = mk(rng);
        let p2 = mk(rng);
        return Pair { cfg, p1, p2, s };
    }
    let mut cfg = gen::gen_small_cfg(rng);
    if cfg.algo != Algo::Fixed && rng.chance(1, 8) {
        // A configuration the CLI and the library accept although it is unusual: the hash
        // window is larger than the maximum chunk size (BuzHash then needs more than one
        // chunk's worth of bytes before its first hash is valid).
        cfg.window = rng.urange(4, 80);
        cfg.max = rng.urange(1, cfg.window - 1);
        cfg.min = match rng.below(3) {
            0 => 0,
            1 => cfg.max,
            _ => rng.urange(0, cfg.max),
        };
        cfg.bits = rng.range(1, 4) as u32;
    }
    let class = *rng.pick(&gen::SRC_CLASSES);
    let slen = rng.urange(0, 6000);
    let s = gen::gen_source(rng, class, slen);
    let kinds: &[u64] = if cfg.algo == Algo::Fixed { &[0, 6, 6] } else { &[0, 1, 2, 3, 4, 5] };
    let k1 = *rng.pick(kinds);
    let k2 = *rng.pick(kinds);
    let p1 = gen_prefix(rng, k1, &s, &cfg);
    let p2 = gen_prefix(rng, k2, &s, &cfg);
    Pair { cfg, p1, p2, s }
}

pub fn run(tier: Tier, seed: u64) -> i32 {
    let rep = Report::new("C10", "exploration", tier, seed);
    // Self-test of the judge: a synthetic disagreement must be reported. FixedSize with a
    // non-aligned prefix never resynchronises but also never has a common boundary; use
    // an aligned one and check agreement, then a hand-made mismatch through judge logic.
    {
        let cfg = Cfg::fixed(4);
        let s: Vec<u8> = (0..23u8).collect();
        match judge_pair(&cfg, &[], &[9, 9, 9, 9], &s) {
            Ok(Some(n)) if n >= 2 => {}
            other => rep.broken(format!("self-test: aligned fixed-size pair judged {:?}", other)),
        }
        match judge_pair(&cfg, &[], &[9], &s) {
            Ok(None) => {}
            other => rep.broken(format!("self-test: unaligned fixed-size pair judged {:?}", other)),
        }
    }
    let n = tier.pick(400_000, 30_000_000);
    let batch = 500;
    let batches = n / batch;
    let out = par_map(batches, crate::util::ncpu(), |b| {
        let mut evals = 0u64;
        let mut with_sync = 0u64;
        let mut nontrivial = Vec::new();
        let mut viol = Vec::new();
        let mut fams = std::collections::BTreeSet::new();
        for j in 0..batch {
            let i = b * batch + j;
            let mut rng = Rng::new(seed).fork(0x1000_0000 + i as u64);
            let f5 = i % 5 == 4;
            let pair = gen_pair(&mut rng, f5);
            evals += 1;
            let sched = if i % 2 == 1 { rng.next_u64() | 1 } else { 0 };
            match judge_pair_sched(&pair.cfg, &pair.p1, &pair.p2, &pair.s, sched) {
                Ok(Some(after)) => {
                    with_sync += 1;
                    if after >= 2 {
                        nontrivial.push(format!("{}:{}", i, pair.cfg.describe()));
                        fams.insert(format!("{:?}/{}", pair.cfg.algo, if f5 { "f5class" } else if pair.cfg.window > pair.cfg.max { "window>max" } else if pair.cfg.window >= 3000 { "window>=3000" } else { "general" }));
                    }
                }
                Ok(None) => {}
                Err(why) => {
                    if viol.len() < 3 {
                        viol.push((
                            format!("c10/{:?}/{}", pair.cfg.algo, why.split(',').next().unwrap_or("").chars().filter(|c| !c.is_ascii_digit()).take(40).collect::<String>()),
                            json!({"why": why, "cfg": pair.cfg.describe(), "p1_len": pair.p1.len(), "p2_len": pair.p2.len(), "s_len": pair.s.len()}),
                            json!({"cfg": cfg_json(&pair.cfg), "p1": hex(&pair.p1), "p2": hex(&pair.p2), "s": hex(&pair.s), "sched": sched}),
                        ));
                    }
                }
            }
        }
        (evals, with_sync, nontrivial, viol, fams)
    });
    for (evals, with_sync, nontrivial, viol, fams) in out {
        rep.evals(evals * 2);
        rep.count("pairs", evals);
        rep.count("pairs_with_common_boundary", with_sync);
        for k in nontrivial {
            rep.nontrivial(k);
        }
        for f in fams {
            rep.seen("families_with_sync", f);
        }
        for (s, d, r) in viol {
            rep.violation(&s, d, r);
        }
    }
    if rep.counter("pairs_with_common_boundary") == 0 {
        rep.broken("no pair had a common boundary".into());
    }
    let mut rng = Rng::new(seed);
    for _ in 0..3 {
        let p = gen_pair(&mut rng, false);
        let r = judge_pair(&p.cfg, &p.p1, &p.p2, &p.s);
        rep.sample(json!({"cfg": p.cfg.describe(), "p1_len": p.p1.len(), "p2_len": p.p2.len(), "s_len": p.s.len(),
            "s_class_head": hex(&p.s[..p.s.len().min(16)]), "chunks_after_sync": format!("{:?}", r)}));
    }
    rep.finish(
        "pairs of streams P1+S / P2+S (prefix kinds: empty, short, long, zero-ending, ending in S's own head, ending in S's first byte repeated, FixedSize-aligned; one rolling configuration in eight has window > max, which CLI and library accept; one pair in 300 uses a window of 3000-20000 bytes over image-like data with padding holes; every fifth pair from the F5 class: P1 empty and S = window ending non-zero + zero run) chunked by the real chunker; after the first boundary common to both at S-position >= window all later boundaries must be equal; non-trivial = distinct pairs that have such a boundary and >= 2 chunks after it",
        &["metamorphic: no reference chunker involved; every second pair is also delivered under two different read schedules (short reads, Pending)"],
        json!({}),
        false,
    )
}

pub fn replay(v: &Value) -> i32 {
    let r = &v["replay"];
    let cfg = cfg_from(&r["cfg"]);
    let (p1, p2, s) = (
        unhex(r["p1"].as_str().unwrap()),
        unhex(r["p2"].as_str().unwrap()),
        unhex(r["s"].as_str().unwrap()),
    );
    match judge_pair_sched(&cfg, &p1, &p2, &s, r["sched"].as_u64().unwrap_or(0)) {
        Err(w) => {
            println!("replay: VIOLATED: {}", w);
            println!("VIOLATION property=C10 replay=(replayed)");
            1
        }
        Ok(x) => {
            println!("replay: property held on this pair ({:?})", x);
            0
        }
    }
}
