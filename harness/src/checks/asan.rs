//! AddressSanitizer slice. `./check` builds a second release CLI from /repo's working tree
//! with `-Zsanitizer=address` on the nightly toolchain; the C sources bundled by zstd-sys
//! are compiled by clang with `-fsanitize=address` as well, so the native decoder that is
//! fed hostile bytes is instrumented. liblzma is the system library (not instrumented; its
//! heap blocks still carry red zones because ASan replaces the allocator).
//!
//! The slice re-runs workloads whose bytes reach native / `unsafe` dependency code
//! (decoders, encoders, bytes/tokio buffers) and adds one oracle: no AddressSanitizer
//! report. A report about the *amount* of memory (allocation-size-too-big, out-of-memory)
//! is not a memory error: it is counted and left to C15's resource monitors, which use
//! exact limits. When the sanitizer binary could not be built the slice is inconclusive.
use crate::evidence::Report;
use crate::proc::{self, p, Bin, Exit, Outcome, Run};
use crate::scn::{self, CloneSpec};
use crate::util::{hex, par_map, Rng};
use serde_json::{json, Value};
use std::path::Path;

pub fn available() -> bool {
    std::env::var_os("BITA_BIN_ASAN").map(|p| Path::new(&p).is_file()).unwrap_or(false)
}

pub fn arm(run: &mut Run) {
    run.bin = Bin::Asan;
    run.use_shim = false;
    run.extra_env.push((
        "ASAN_OPTIONS".into(),
        "exitcode=98:detect_leaks=0:abort_on_error=0:halt_on_error=1:allocator_may_return_null=1:symbolize=1:detect_stack_use_after_return=0".into(),
    ));
    run.extra_env.push(("ASAN_SYMBOLIZER_PATH".into(), "/usr/bin/llvm-symbolizer-14".into()));
    run.rlimit_cpu_s = Some(300);
    run.timeout = std::time::Duration::from_secs(400);
}

#[derive(Debug, Clone, PartialEq)]
pub enum Verdict {
    Clean,
    /// A memory-error report: (kind, first in-repo or first frame, excerpt)
    MemoryError(String, String),
    /// A report about the amount of memory requested, not about an invalid access.
    Resource(String),
}

pub fn judge_text(stderr: &str) -> Verdict {
    let Some(pos) = stderr.find("ERROR: AddressSanitizer") else {
        return Verdict::Clean;
    };
    let line = stderr[pos..].lines().next().unwrap_or("");
    let kind = line
        .trim_start_matches("ERROR: AddressSanitizer:")
        .trim()
        .split(|c: char| c == ' ' || c == ':')
        .next()
        .unwrap_or("unknown")
        .to_string();
    let kind = if kind.is_empty() { "unknown".to_string() } else { kind };
    const RESOURCE: [&str; 5] = ["allocation-size-too-big", "out-of-memory", "rss-limit-exceeded", "requested", "failed"];
    if RESOURCE.contains(&kind.as_str()) || line.contains("failed to allocate") {
        return Verdict::Resource(kind);
    }
    let mut end = (pos + 2500).min(stderr.len());
    while !stderr.is_char_boundary(end) {
        end -= 1;
    }
    Verdict::MemoryError(kind, stderr[pos..end].to_string())
}

pub fn judge(o: &Outcome) -> Verdict {
    judge_text(&String::from_utf8_lossy(&o.stderr))
}

/// Monitor self-test: the classifier must fire on a genuine report and must keep a
/// resource report apart.
pub fn self_test(rep: &Report) {
    let bad = "=================================================================\n==123==ERROR: AddressSanitizer: heap-buffer-overflow on address 0x602000000014 at pc 0x55 bp 0x7f sp 0x7f\nREAD of size 1 at 0x602000000014 thread T0\n    #0 0x55 in ZSTD_decompress\n";
    let res = "==9==ERROR: AddressSanitizer: allocation-size-too-big: requested allocation size 0xffffffffff exceeds maximum supported size\n";
    let ok1 = matches!(judge_text(bad), Verdict::MemoryError(ref k, _) if k == "heap-buffer-overflow");
    let ok2 = matches!(judge_text(res), Verdict::Resource(_));
    let ok3 = judge_text("Error: Failed to read archive") == Verdict::Clean;
    if !(ok1 && ok2 && ok3) {
        rep.broken("asan report classifier self-test failed".into());
    }
}

#[derive(Clone, Copy, Debug, PartialEq)]
pub enum Surf {
    Info,
    Clone,
    CloneSeed,
    CloneInPlace,
}

impl Surf {
    pub fn name(self) -> &'static str {
        match self {
            Surf::Info => "info",
            Surf::Clone => "clone",
            Surf::CloneSeed => "clone--seed",
            Surf::CloneInPlace => "clone--seed-output",
        }
    }
    pub fn from_name(s: &str) -> Surf {
        match s {
            "info" => Surf::Info,
            "clone--seed" => Surf::CloneSeed,
            "clone--seed-output" => Surf::CloneInPlace,
            _ => Surf::Clone,
        }
    }
}

/// Run one hostile byte string through one surface of the sanitizer binary.
pub fn hostile_case(dir: &Path, tag: &str, bytes: &[u8], surf: Surf, seed_data: &[u8]) -> (Verdict, Exit, String) {
    let apath = dir.join(format!("{}.cba", tag));
    let out = dir.join(format!("{}.out", tag));
    let seedp = dir.join(format!("{}.seed", tag));
    std::fs::write(&apath, bytes).unwrap();
    let _ = std::fs::remove_file(&out);
    let args = match surf {
        Surf::Info => vec![proc::s("info"), p(&apath)],
        Surf::Clone => scn::clone_args(&CloneSpec { archive: p(&apath), output: out.clone(), ..Default::default() }),
        Surf::CloneSeed => {
            std::fs::write(&seedp, seed_data).unwrap();
            scn::clone_args(&CloneSpec { archive: p(&apath), output: out.clone(), seeds: vec![seedp.clone()], ..Default::default() })
        }
        Surf::CloneInPlace => {
            std::fs::write(&out, seed_data).unwrap();
            scn::clone_args(&CloneSpec { archive: p(&apath), output: out.clone(), seed_output: true, ..Default::default() })
        }
    };
    let mut run = Run::new(dir, tag, args);
    arm(&mut run);
    // hostile dictionaries may legitimately declare sizes of tens of MiB per chunk
    run.rlimit_as = None;
    let o = proc::run(&run);
    let _ = std::fs::remove_file(&apath);
    let _ = std::fs::remove_file(&out);
    let _ = std::fs::remove_file(&seedp);
    (judge(&o), o.exit, o.tail())
}

/// Hostile inputs (class, bytes) x surfaces under the sanitizer binary.
pub fn hostile_slice(rep: &Report, id: &str, inputs: &[(String, Vec<u8>)], surfaces: &[Surf], seed: u64, dir_no: usize) {
    self_test(rep);
    if !available() {
        rep.inconclusive("asan: sanitizer build of the CLI not available");
        rep.note("AddressSanitizer slice skipped: the -Zsanitizer=address build of the CLI is not available".into());
        return;
    }
    let mut rr = Rng::new(seed ^ 0xa5a);
    let mut seed_data = crate::gen::gen_source(&mut rr, crate::gen::SrcClass::ZeroRuns, 3000);
    seed_data.extend(rr.bytes(2000));
    let dir = scn::case_dir(id, dir_no);
    let jobs: Vec<(usize, Surf)> = (0..inputs.len()).flat_map(|i| surfaces.iter().map(move |s| (i, *s))).collect();
    let res = par_map(jobs.len(), crate::util::ncpu(), |j| {
        let (i, surf) = jobs[j];
        let r = hostile_case(&dir, &format!("a{}", j), &inputs[i].1, surf, &seed_data);
        (i, surf, r)
    });
    let lower = id.to_lowercase();
    for (i, surf, (verdict, exit, tail)) in res {
        rep.eval();
        rep.count("asan.runs", 1);
        match verdict {
            Verdict::MemoryError(kind, excerpt) => rep.violation(
                &format!("{}/asan/{}/{}/{}", lower, surf.name(), inputs[i].0, kind),
                json!({"class": inputs[i].0, "surface": surf.name(), "report": excerpt}),
                json!({"engine": "asan", "surface": surf.name(), "class": inputs[i].0, "archive_hex": if inputs[i].1.len() < 200_000 { hex(&inputs[i].1) } else { String::new() }}),
            ),
            Verdict::Resource(kind) => {
                rep.count(&format!("asan.resource_reports.{}", kind), 1);
            }
            Verdict::Clean => match exit {
                Exit::Timeout => rep.inconclusive("asan watchdog"),
                Exit::Code(98) => rep.inconclusive("asan exit code without a report"),
                _ => {
                    rep.count("asan.runs_clean", 1);
                    rep.seen("asan.exit_kinds", exit.describe());
                    if !exit.ok() && tail.contains("panicked at") {
                        // panics are judged by the dev-profile engines; seen here they are counted
                        rep.count("asan.panics_seen", 1);
                    }
                }
            },
        }
    }
    scn::cleanup(&dir, false);
}

pub fn replay_hostile(id: &str, r: &Value) -> i32 {
    if !available() {
        println!("replay: sanitizer binary not available (inconclusive)");
        return 0;
    }
    let bytes = crate::util::unhex(r["archive_hex"].as_str().unwrap_or(""));
    let surf = Surf::from_name(r["surface"].as_str().unwrap_or("clone"));
    let dir = scn::case_dir(id, 900_100);
    let mut rr = Rng::new(1 ^ 0xa5a);
    let mut seed_data = crate::gen::gen_source(&mut rr, crate::gen::SrcClass::ZeroRuns, 3000);
    seed_data.extend(rr.bytes(2000));
    let (v, exit, tail) = hostile_case(&dir, "replay", &bytes, surf, &seed_data);
    scn::cleanup(&dir, false);
    match v {
        Verdict::MemoryError(kind, ex) => {
            println!("replay: VIOLATED: AddressSanitizer {} on {}\n{}", kind, surf.name(), ex);
            println!("VIOLATION property={} replay=(replayed)", id);
            1
        }
        _ => {
            println!("replay: no memory-error report ({}): {}", exit.describe(), tail.lines().last().unwrap_or(""));
            0
        }
    }
}

/// Compress + clone under the sanitizer binary: every codec, sources that are really stored
/// compressed, byte equality with the source. Returns Some(why) on a violation.
pub fn roundtrip_case(dir: &Path, tag: &str, source: &[u8], spec: &scn::CompressSpec, in_place_prior: Option<&[u8]>) -> Result<(), String> {
    let (mut run, out_path) = scn::compress_run(dir, tag, source, spec);
    let _ = std::fs::remove_file(&out_path);
    arm(&mut run);
    let o = proc::run(&run);
    if std::env::var_os("VERIF_GATE_DEBUG").is_some() {
        eprintln!("asan-compress {} {}: cpu {} ms wall {:.1?} maxrss {} MB source {} B", tag, spec.describe(), o.cpu_ms, o.wall, o.maxrss_kb / 1024, source.len());
    }
    if let Verdict::MemoryError(kind, ex) = judge(&o) {
        return Err(format!("asan-report({}) in compress: {}", kind, ex));
    }
    // stopped by the harness's own watchdog or CPU-time rlimit: no verdict on the program
    if matches!(o.exit, Exit::Timeout) || o.exit.hit_cpu_limit() {
        return Err("inconclusive: watchdog".into());
    }
    if !o.exit.ok() {
        return Err(format!("compress under the sanitizer build failed: {} {}", o.exit.describe(), o.tail()));
    }
    let out = dir.join(format!("{}.out", tag));
    let _ = std::fs::remove_file(&out);
    let mut cs = CloneSpec { archive: p(&out_path), output: out.clone(), ..Default::default() };
    if let Some(prior) = in_place_prior {
        std::fs::write(&out, prior).unwrap();
        cs.seed_output = true;
    }
    let mut run = Run::new(dir, &format!("{}.clone", tag), scn::clone_args(&cs));
    arm(&mut run);
    let o = proc::run(&run);
    if let Verdict::MemoryError(kind, ex) = judge(&o) {
        return Err(format!("asan-report({}) in clone: {}", kind, ex));
    }
    if matches!(o.exit, Exit::Timeout) || o.exit.hit_cpu_limit() {
        return Err("inconclusive: watchdog".into());
    }
    if !o.exit.ok() {
        return Err(format!("clone under the sanitizer build failed: {} {}", o.exit.describe(), o.tail()));
    }
    let got = std::fs::read(&out).map_err(|e| format!("no output: {}", e))?;
    if got != source {
        return Err(format!("output differs from the source (len {} vs {}, first diff {:?})", got.len(), source.len(), crate::util::first_diff(&got, source)));
    }
    let _ = std::fs::remove_file(&out);
    let _ = std::fs::remove_file(&out_path);
    Ok(())
}
