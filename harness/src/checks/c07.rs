//! C07 — adjacent missing chunks are fetched with a single range request.
//!
//! Monitor: ordered Range log of the scripted HTTP server. Oracle: R3's maximal runs
//! of byte-adjacent consecutive descriptors among the chunks left to fetch.
//! Engines: (a) library — every non-empty subset of descriptors of small archives
//! through Archive::chunk_stream + HttpReader, for bita-written and for R2-written
//! (gapped, permuted, reversed) archives; (b) the real CLI with subsets induced by
//! seeds on larger archives.
use super::clone_common::{self as cc, Faults, Focus, Scenario};
use crate::evidence::{Report, Tier};
use crate::gen::Comp;
use crate::httpd::{self, Server};
use crate::proc::Exit;
use crate::refimpl::chunker::Cfg;
use crate::refimpl::enc::{self, ArchiveSpec, StoredOrder};
use crate::refimpl::model::Model;
use crate::scn::{self, CompressSpec};
use crate::util::{par_map, Rng};
use futures_util::StreamExt;
use serde_json::{json, Value};
use std::sync::Arc;

/// All subsets of an archive's descriptors; returns (subsets judged, multi-run subsets, violation).
fn subsets_of(archive: Arc<Vec<u8>>, label: &str) -> Result<(u64, u64, u64), String> {
    let model = Model::from_archive(&archive)?;
    let n = model.parsed.dict.descs.len();
    if n == 0 || n > 12 {
        return Err(format!("archive has {} descriptors (engine wants 1..=12)", n));
    }
    // The server answers correctly but paces its bodies differently per subset.
    let mode = Arc::new(std::sync::atomic::AtomicU8::new(0));
    let scripts: Vec<httpd::Script> = (0..4u8).map(|m| cc::pacing_script(&model, m, 7)).collect();
    let m2 = mode.clone();
    let server = Server::start(archive.clone(), Arc::new(move |req, f| scripts[m2.load(std::sync::atomic::Ordering::SeqCst) as usize % 4](req, f)));
    let url = server.url();
    let rt = crate::exec::rt_multi(2);
    let log = server.log_handle();
    let label = label.to_string();
    rt.block_on(async move {
        let reader = crate::lib_drv::http_reader(&url, 0)?;
        let mut a = bitar::Archive::try_init(reader).await.map_err(|e| format!("{}: try_init: {:?}", label, e))?;
        let (mut judged, mut multi, mut reqs) = (0u64, 0u64, 0u64);
        let mut padded = 0u64;
        let mut abandoned = 0u64;
        for mask in 1u32..(1u32 << n) {
            let subset: Vec<usize> = (0..n).filter(|i| mask >> i & 1 == 1).collect();
            let mut index = bitar::ChunkIndex::new_empty(model.hash_len);
            for &i in &subset {
                let d = &model.parsed.dict.descs[i];
                index.add_chunk(bitar::HashSum::from(&d.checksum[..]), d.source_size as usize, &[0]);
            }
            // The index of what is left to fetch need not be derived from this archive (an
            // archive used as a chunk source for another one): every third subset is padded
            // with hashes the archive does not hold. The requests must not change.
            if mask % 3 == 1 {
                for k in 0..(n as u64 + 3) {
                    let foreign = crate::util::b2(&[&mask.to_le_bytes()[..], &k.to_le_bytes()[..], b"foreign"].concat());
                    index.add_chunk(bitar::HashSum::from(&foreign[..]), 10, &[1 << 40]);
                }
                padded += 1;
            }
            mode.store((mask % 4) as u8, std::sync::atomic::Ordering::SeqCst);
            // Every fifth subset is preceded by a stream over ALL chunks that is abandoned
            // after its first item (a caller that stops early): nothing of it may leak into
            // the next stream on the same reader.
            if mask % 5 == 2 && n >= 2 {
                let mut all = bitar::ChunkIndex::new_empty(model.hash_len);
                for d in &model.parsed.dict.descs {
                    all.add_chunk(bitar::HashSum::from(&d.checksum[..]), d.source_size as usize, &[0]);
                }
                let mut st = a.chunk_stream(&all);
                let _ = st.next().await;
                drop(st);
                abandoned += 1;
            }
            let mark = log.len();
            {
                let mut st = a.chunk_stream(&index);
                let mut k = 0;
                while let Some(r) = st.next().await {
                    let c = r.map_err(|e| format!("{}: stream error: {:?}", label, e))?;
                    let want = model.parsed.dict.descs[subset[k]].archive_size as usize;
                    if c.len() != want {
                        return Err(format!("{}: item {} has {} bytes, stored size {}", label, k, c.len(), want));
                    }
                    // and it must be THAT chunk: decompress + verify against the descriptor
                    if c.decompress().ok().and_then(|x| x.verify().ok()).is_none() {
                        return Err(format!("{}: subset {:?}: item {} is not the chunk of descriptor {} (wrong bytes delivered)", label, subset, k, subset[k]));
                    }
                    k += 1;
                }
                if k != subset.len() {
                    return Err(format!("{}: stream delivered {} of {} chunks", label, k, subset.len()));
                }
            }
            let got: Vec<(u64, u64)> = log.ranges_from(mark);
            let want = model.runs(&subset);
            if got != want {
                return Err(format!(
                    "{}: subset {:?}: requests {:?}, expected maximal runs {:?}",
                    label, subset, got, want
                ));
            }
            judged += 1;
            reqs += got.len() as u64;
            if want.len() >= 2 {
                multi += 1;
            }
        }
        let _ = (padded, abandoned);
        Ok((judged, multi, reqs))
    })
}

fn small_source(rng: &mut Rng, n: usize, nchunks: usize) -> Vec<u8> {
    // nchunks distinct blocks of n bytes, some repeated.
    let blocks: Vec<Vec<u8>> = (0..nchunks).map(|_| rng.bytes(n)).collect();
    let mut v = Vec::new();
    for b in &blocks {
        v.extend_from_slice(b);
        if rng.chance(1, 4) {
            let k = rng.usize_below(blocks.len());
            v.extend_from_slice(&blocks[k]);
        }
    }
    v
}

fn library_engine(rep: &Report, seed: u64, tier: Tier) {
    let max_desc = tier.pick(10, 12);
    // bita-written archives (real CLI) and R2-written ones.
    let jobs: Vec<(usize, bool)> = (0..tier.pick(8, 24)).map(|i| (i, false)).chain((0..tier.pick(12, 40)).map(|i| (i, true))).collect();
    let out = par_map(jobs.len(), crate::util::ncpu(), |j| {
        let (i, r2) = jobs[j];
        let mut rng = Rng::new(seed).fork(0x0700_0000 + j as u64);
        let n = if r2 && i % 4 == 3 { rng.urange(700, 1200) } else { rng.urange(16, 200) };
        let nchunks = rng.urange(max_desc - 3, max_desc);
        let source = small_source(&mut rng, n, nchunks);
        let comp = *rng.pick(&[Comp::None, Comp::Brotli(4), Comp::Zstd(3)]);
        let label;
        let bytes = if r2 {
            let mut spec = ArchiveSpec::plain(Cfg::fixed(n), *rng.pick(&[4usize, 16, 64]), comp.dict_values());
            spec.order = *rng.pick(&[StoredOrder::AsDescriptors, StoredOrder::Reversed, StoredOrder::Shuffled]);
            spec.max_pad = *rng.pick(&[0usize, 0, 1, 9]);
            spec.slack = *rng.pick(&[0usize, 1, 4096]);
            spec.layout_seed = rng.next_u64();
            if i % 4 == 3 {
                // Coincidence family: chunk data starts at an absolute offset equal to the
                // (uncompressed, fixed) chunk size, stored order not the descriptor order —
                // "adjacent" must be decided on offset + size, not on size alone.
                spec.comp = (0, 0);
                spec.max_pad = 0;
                spec.slack = 0;
                spec.order = if i % 8 == 3 { StoredOrder::Reversed } else { StoredOrder::Shuffled };
                if let Ok(e0) = enc::encode_archive(&source, &spec) {
                    // larger chunks so that the header fits in front
                    if n > e0.header_len {
                        spec.slack = n - e0.header_len;
                    }
                }
            }
            label = format!("r2[{:?},pad<={},slack={}]#{}", spec.order, spec.max_pad, spec.slack, i);
            match enc::encode_archive(&source, &spec) {
                Ok(e) => e.bytes,
                Err(e) => return (label, Err(format!("encoder: {}", e)), true),
            }
        } else {
            label = format!("bita[{}]#{}", comp.describe(), i);
            let dir = scn::case_dir("C07", 100_000 + j);
            let r = scn::make_archive(&dir, "a", &source, &CompressSpec::new(Cfg::fixed(n), comp, 64));
            scn::cleanup(&dir, false);
            match r {
                Ok(a) => a.bytes,
                Err(e) => return (label, Err(e), true),
            }
        };
        let r = crate::util::catch(|| subsets_of(Arc::new(bytes), &label)).and_then(|x| x);
        (label, r, false)
    });
    for (label, r, build_problem) in out {
        match r {
            Ok((judged, multi, reqs)) => {
                rep.evals(judged);
                rep.count("lib.subsets_judged", judged);
                rep.count("lib.subsets_with_2+_runs", multi);
                rep.count("lib.requests_observed", reqs);
                rep.seen("lib.archives", label.clone());
                rep.nontrivial(format!("archive:{}", label));
            }
            Err(e) if build_problem => rep.inconclusive(&format!("archive build: {}", e.chars().take(40).collect::<String>())),
            Err(why) => rep.violation(
                &format!("c07/lib/{}", if label.starts_with("r2") { "r2-written" } else { "bita-written" }),
                json!({"why": why, "archive": label}),
                json!({"engine": "lib", "seed": seed}),
            ),
        }
    }
}

pub fn one_scenario(rep: &Report, idx: usize, sc: &Scenario, keep: bool) -> Option<String> {
    let dir = scn::case_dir("C07", idx);
    let res = (|| -> Result<(), String> {
        let b = match cc::build(&dir, sc) {
            Ok(b) => b,
            Err(e) => {
                rep.inconclusive(&e.chars().take(40).collect::<String>());
                return Ok(());
            }
        };
        cc::prepare_output(&b, sc);
        let pacing = (idx % 4) as u8;
        let o = cc::run_clone(&dir, &b, sc, "clone", &Faults { pacing, ..Default::default() });
        rep.eval();
        if o.exit == Exit::Timeout {
            rep.inconclusive("watchdog");
            return Ok(());
        }
        if cc::failed(&o).is_some() {
            rep.inconclusive("clone failed on a valid scenario (judged by C01/C03/C05)");
            return Ok(());
        }
        cc::judge_runs(&b, &o).map_err(|e| format!("{} [server pacing mode {}]", e, pacing))?;
        rep.count(&format!("cli.pacing_mode_{}", pacing), 1);
        rep.count("cli.range_logs_judged", 1);
        rep.count("cli.chunk_data_requests", b.pred.requests.len() as u64);
        if b.pred.requests.len() >= 2 && b.pred.fetch.len() > b.pred.requests.len() {
            rep.nontrivial(format!("{}#{}", sc.key(), idx));
        }
        rep.sample_if(idx % 19 == 0, || {
            json!({"scenario": sc.to_json(), "to_fetch": b.pred.fetch.len(), "expected_runs": b.pred.requests.iter().take(5).collect::<Vec<_>>(),
                   "ranges_seen": o.requests.iter().map(|r| r.req.raw_range.clone()).take(7).collect::<Vec<_>>()})
        });
        Ok(())
    })();
    scn::cleanup(&dir, keep && res.is_err());
    res.err()
}

/// Magnitudes: runs of adjacent missing chunks whose total size crosses 2^31 and 2^32
/// (chunks of hundreds of MiB up to the format's u32 limit). Nothing that large is
/// transferred: the dictionary is written by the independent encoder, the server holds the
/// header only, logs the Range of every request on arrival and answers a chunk-data request
/// with the announced length but only the first bytes, then closes (retry budget 0). The
/// first chunk-data request therefore shows how far the client merged the first run.
fn giant_run_case(idx: usize, seed: u64) -> Result<(u64, bool), String> {
    use crate::refimpl::codec::{Desc, Dict, EncStyle, Params};
    let mut rng = Rng::new(seed).fork(0x07_6000 + idx as u64);
    let nd = rng.urange(3, 9);
    let mut descs = Vec::new();
    let mut off = 0u64;
    for i in 0..nd {
        let size: u32 = match rng.below(5) {
            0 => rng.range(1 << 10, 1 << 16) as u32,
            1 => rng.range(300 << 20, 700 << 20) as u32,
            2 => rng.range(1 << 30, (1u64 << 31) - 1) as u32,
            3 => rng.range(1u64 << 31, u32::MAX as u64) as u32,
            _ => u32::MAX - rng.below(3) as u32,
        };
        // one chunk in four is followed by a gap: runs end there
        let gap = if rng.chance(1, 4) { rng.range(1, 1 << 20) } else { 0 };
        descs.push(Desc { checksum: crate::util::b2(&[&(idx as u64).to_le_bytes()[..], &(i as u64).to_le_bytes()[..]].concat()).to_vec(), archive_size: size, archive_offset: off, source_size: size });
        off += size as u64 + gap;
    }
    let total: u64 = descs.iter().map(|d| d.source_size as u64).sum();
    let dict = Dict {
        app_version: "giant".into(),
        source_checksum: vec![7u8; 64],
        source_total_size: total,
        params: Some(Params { filter_bits: 0, min: 0, max: u32::MAX, window: 0, hash_len: 64, algo: 2 }),
        compression: Some((0, 0)),
        rebuild_order: (0..nd as u32).collect(),
        descs: descs.clone(),
        metadata: vec![],
        unknown_fields: 0,
    };
    let header = enc::assemble(&dict, &EncStyle::default(), None, &[]);
    let parsed = crate::refimpl::codec::parse_archive(&header).map_err(|e| format!("harness: own header does not parse: {}", e))?;
    let base = parsed.chunk_data_offset;
    let hlen = header.len() as u64;
    // subset of missing chunks; expected first run
    let mut subset: Vec<usize> = (0..nd).filter(|_| rng.chance(3, 4)).collect();
    if subset.is_empty() {
        subset = (0..nd).collect();
    }
    let mut run_end = base + descs[subset[0]].archive_offset + descs[subset[0]].archive_size as u64;
    let run_start = base + descs[subset[0]].archive_offset;
    let mut members = 1;
    for w in subset.windows(2) {
        if w[1] == w[0] + 1 && base + descs[w[1]].archive_offset == run_end {
            run_end += descs[w[1]].archive_size as u64;
            members += 1;
        } else {
            break;
        }
    }
    let want = (run_start, run_end - 1);
    let server = Server::start(
        Arc::new(header.clone()),
        Arc::new(move |req: &httpd::Req, _f: &[u8]| match req.range {
            Some((a, b)) if a >= hlen && b >= a => httpd::Action::Custom { status: 206, declared_len: Some(b - a + 1), body: vec![0u8; ((b - a) as usize).min(700)] },
            _ => httpd::Action::Full,
        }),
    );
    let url = server.url();
    let log = server.log_handle();
    let rt = crate::exec::rt_multi(1);
    let res: Result<(), String> = rt.block_on(async {
        let reader = crate::lib_drv::http_reader(&url, 0)?;
        let a = tokio::time::timeout(std::time::Duration::from_secs(60), bitar::Archive::try_init(reader)).await.map_err(|_| "inconclusive: watchdog".to_string())?;
        let mut a = a.map_err(|e| format!("inconclusive: the reader rejects the giant dictionary: {:?}", e))?;
        let mut index = bitar::ChunkIndex::new_empty(64);
        for &i in &subset {
            index.add_chunk(bitar::HashSum::from(&descs[i].checksum[..]), descs[i].source_size as usize, &[0]);
        }
        let mut st = a.chunk_stream(&index);
        let r = tokio::time::timeout(std::time::Duration::from_secs(60), async {
            while let Some(item) = st.next().await {
                if item.is_err() {
                    break;
                }
            }
        })
        .await;
        r.map_err(|_| "inconclusive: watchdog".to_string())
    });
    res?;
    let got: Vec<(u64, u64)> = log.ranges_from(0).into_iter().filter(|r| r.0 >= hlen).collect();
    let Some(first) = got.first() else {
        return Err("inconclusive: no chunk-data request seen".into());
    };
    if *first != want {
        return Err(format!(
            "first run of missing chunks is {} adjacent chunks = bytes {}-{} ({} bytes); the first chunk-data request asked for {}-{} (all chunk-data requests: {:?})",
            members, want.0, want.1, want.1 - want.0 + 1, first.0, first.1, got
        ));
    }
    Ok((want.1 - want.0 + 1, members >= 2))
}

fn giant_runs(rep: &Report, seed: u64, tier: Tier) {
    let n = tier.pick(48, 600);
    let out = par_map(n, crate::util::ncpu(), |i| (i, giant_run_case(i, seed)));
    for (i, r) in out {
        rep.eval();
        match r {
            Ok((len, multi)) => {
                rep.count("giant.first_runs_judged", 1);
                if multi && len > (1u64 << 31) {
                    rep.count("giant.multi_chunk_runs_over_2GiB", 1);
                }
                if multi && len > (1u64 << 32) {
                    rep.count("giant.multi_chunk_runs_over_4GiB", 1);
                    rep.nontrivial(format!("giant:{}", i));
                }
            }
            Err(why) if why.starts_with("inconclusive") => rep.inconclusive("giant run case"),
            Err(why) => rep.violation("c07/giant-run/first request differs from the maximal run", json!({"why": why, "idx": i}), json!({"engine": "giant", "idx": i, "seed": seed})),
        }
    }
    if rep.counter("giant.multi_chunk_runs_over_2GiB") == 0 {
        rep.broken("no run of adjacent chunks over 2 GiB was judged".into());
    }
}

pub fn run(tier: Tier, seed: u64) -> i32 {
    let rep = Report::new("C07", "exploration", tier, seed);
    library_engine(&rep, seed, tier);
    giant_runs(&rep, seed, tier);
    let n = tier.pick(500, 15_000);
    let viols = par_map(n, crate::util::ncpu(), |i| {
        let mut rng = Rng::new(seed).fork(0x0700 + i as u64);
        let mut sc = cc::gen_scenario(&mut rng, Focus::Mixed, (1, 1), true);
        sc.http = true;
        let v = one_scenario(&rep, i, &sc, true);
        (i, sc, v)
    });
    for (i, sc, v) in viols {
        if let Some(why) = v {
            rep.violation(
                "c07/cli/requests differ from maximal runs",
                json!({"why": why, "scenario": sc.to_json(), "work_dir": format!("/verif/.work/C07/c{}", i)}),
                json!({"engine": "process", "scenario": sc.to_json()}),
            );
        }
    }
    if rep.counter("lib.subsets_with_2+_runs") == 0 || rep.counter("cli.range_logs_judged") == 0 {
        rep.broken("no multi-run subset / no CLI Range log judged".into());
    }
    rep.finish(
        "library engine: for small archives (<= 9/11 descriptors; written by the real CLI with none/brotli/zstd, and by the independent encoder with stored chunks in descriptor / reversed / shuffled order, padding and slack) EVERY non-empty subset of descriptors is requested through Archive::chunk_stream + HttpReader and the server's ordered Range list must equal the maximal runs of byte-adjacent consecutive descriptors; CLI engine: real `bita clone` over HTTP with subsets induced by seeds / prior output on larger archives; non-trivial = archives (library) and scenarios with >= 2 runs of which at least one covers several chunks (CLI)",
        &["no transfer failures are injected", "for permuted archives 'adjacent' means byte-adjacent consecutive descriptors of the filtered descriptor list"],
        json!({"exhaustive_scope": "all 2^n-1 descriptor subsets of each small archive"}),
        true,
    )
}

pub fn replay(v: &Value) -> i32 {
    let r = &v["replay"];
    let mut rep = Report::new("C07", "exploration", Tier::Quick, r["seed"].as_u64().unwrap_or(1));
    rep.replay_mode = true;
    if r["engine"] == "giant" {
        return match giant_run_case(r["idx"].as_u64().unwrap_or(0) as usize, r["seed"].as_u64().unwrap_or(1)) {
            Err(w) if !w.starts_with("inconclusive") => {
                println!("replay: VIOLATED: {}", w);
                println!("VIOLATION property=C07 replay=(replayed)");
                1
            }
            other => {
                println!("replay: property held on this case ({:?})", other);
                0
            }
        };
    }
    if r["engine"] == "lib" {
        library_engine(&rep, r["seed"].as_u64().unwrap_or(1), Tier::Quick);
        return if rep.violations() > 0 { 1 } else { 0 };
    }
    match one_scenario(&rep, 900_000, &Scenario::from_json(&r["scenario"]), false) {
        Some(w) => {
            println!("replay: VIOLATED: {}", w);
            println!("VIOLATION property=C07 replay=(replayed)");
            1
        }
        None => {
            println!("replay: property held on this case");
            0
        }
    }
}
