//! Shared by C01 / C11 / C12: compress cases, schedule injection, observation.
use crate::gen::{self, Comp, SrcClass};
use crate::inst::{FragPlan, PendPlan};
use crate::proc::{self, Exit, HookEvent, Outcome, K_COPY, K_READ, K_WRITE};
use crate::refimpl::chunker::{self as r1, Algo, Cfg};
use crate::refimpl::codec::{self, Expect, Params};
use crate::scn::{self, CompressSpec};
use crate::util::{fnv64, hex, unhex, Rng};
use serde_json::{json, Value};
use std::path::Path;

#[derive(Clone, Debug)]
pub struct Injection {
    pub seed: u64,
    pub hook_delay_us: u64,
    pub temp_write_delay_us: u64,
    pub input_read_delay_us: u64,
    pub workers: Option<usize>,
}

impl Injection {
    pub fn none() -> Self {
        Injection {
            seed: 0,
            hook_delay_us: 0,
            temp_write_delay_us: 0,
            input_read_delay_us: 0,
            workers: None,
        }
    }
    pub fn gen(rng: &mut Rng) -> Self {
        Injection {
            seed: rng.next_u64() >> 1,
            hook_delay_us: *rng.pick(&[0u64, 200, 1000, 3000]),
            temp_write_delay_us: *rng.pick(&[0u64, 500, 3000, 20_000]),
            input_read_delay_us: *rng.pick(&[0u64, 0, 300, 2000]),
            workers: *rng.pick(&[None, Some(1), Some(2), Some(16)]),
        }
    }
    pub fn to_json(&self) -> Value {
        json!([self.seed, self.hook_delay_us, self.temp_write_delay_us, self.input_read_delay_us, self.workers])
    }
    pub fn from_json(v: &Value) -> Self {
        Injection {
            seed: v[0].as_u64().unwrap(),
            hook_delay_us: v[1].as_u64().unwrap(),
            temp_write_delay_us: v[2].as_u64().unwrap(),
            input_read_delay_us: v[3].as_u64().unwrap(),
            workers: v[4].as_u64().map(|x| x as usize),
        }
    }
}

#[derive(Clone, Copy, Debug, PartialEq, Eq)]
pub enum Writer {
    CliFile,
    CliStdin,
    Lib,
}

impl Writer {
    pub fn name(&self) -> &'static str {
        match self {
            Writer::CliFile => "cli-file",
            Writer::CliStdin => "cli-stdin",
            Writer::Lib => "lib",
        }
    }
    pub fn from_name(s: &str) -> Writer {
        match s {
            "cli-file" => Writer::CliFile,
            "cli-stdin" => Writer::CliStdin,
            _ => Writer::Lib,
        }
    }
}

#[derive(Clone, Debug)]
pub struct CCase {
    pub src_seed: u64,
    pub src_class: SrcClass,
    pub src_len: usize,
    pub len_class: String,
    pub spec: CompressSpec,
    pub writer: Writer,
}

pub fn class_name(c: SrcClass) -> &'static str {
    match c {
        SrcClass::Random => "random",
        SrcClass::Constant => "constant",
        SrcClass::LowEntropy => "lowentropy",
        SrcClass::ZeroRuns => "zeroruns",
        SrcClass::BlockRepetitive => "blockrep",
        SrcClass::Zeros => "zeros",
        SrcClass::LevelShift => "levelshift",
        SrcClass::MixedEntropy => "mixedentropy",
    }
}
pub fn class_from(s: &str) -> SrcClass {
    match s {
        "random" => SrcClass::Random,
        "constant" => SrcClass::Constant,
        "lowentropy" => SrcClass::LowEntropy,
        "zeroruns" => SrcClass::ZeroRuns,
        "blockrep" => SrcClass::BlockRepetitive,
        "levelshift" => SrcClass::LevelShift,
        "mixedentropy" => SrcClass::MixedEntropy,
        _ => SrcClass::Zeros,
    }
}

impl CCase {
    pub fn source(&self) -> Vec<u8> {
        gen::gen_source(&mut Rng::new(self.src_seed), self.src_class, self.src_len)
    }
    pub fn to_json(&self) -> Value {
        json!({
            "src": [self.src_seed, class_name(self.src_class), self.src_len, self.len_class],
            "cfg": super::c09::cfg_json(&self.spec.cfg),
            "comp": self.spec.comp.describe(),
            "hash_len": self.spec.hash_len,
            "buffered": self.spec.buffered,
            "stdin": self.spec.stdin,
            "force": self.spec.force,
            "preexisting": self.spec.preexisting,
            "stale_temp": self.spec.stale_temp,
            "unreadable_metadata": self.spec.unreadable_metadata.as_ref().map(|(k, kind)| json!([k, kind])),
            "writer": self.writer.name(),
            "meta_values": self.spec.metadata_values,
            "meta_files": self.spec.metadata_files.iter().map(|(k, v)| (k.clone(), hex(v))).collect::<Vec<_>>(),
        })
    }
    pub fn from_json(v: &Value) -> CCase {
        let comp_s = v["comp"].as_str().unwrap();
        let comp = if comp_s == "none" {
            Comp::None
        } else {
            let (f, l) = comp_s.split_once('-').unwrap();
            let l: u32 = l.parse().unwrap();
            match f {
                "brotli" => Comp::Brotli(l),
                "zstd" => Comp::Zstd(l),
                _ => Comp::Lzma(l),
            }
        };
        let mut spec = CompressSpec::new(super::c09::cfg_from(&v["cfg"]), comp, v["hash_len"].as_u64().unwrap() as usize);
        spec.buffered = v["buffered"].as_u64().map(|x| x as usize);
        spec.stdin = v["stdin"].as_u64();
        spec.force = v["force"].as_bool().unwrap_or(false);
        spec.preexisting = v["preexisting"].as_u64().map(|x| x as usize);
        spec.stale_temp = v["stale_temp"].as_u64().map(|x| x as usize);
        spec.unreadable_metadata = v["unreadable_metadata"].as_array().map(|a| (a[0].as_str().unwrap_or("").to_string(), a[1].as_u64().unwrap_or(0) as u8));
        spec.metadata_values = v["meta_values"]
            .as_array()
            .map(|a| {
                a.iter()
                    .map(|e| (e[0].as_str().unwrap().to_string(), e[1].as_str().unwrap().to_string()))
                    .collect()
            })
            .unwrap_or_default();
        spec.metadata_files = v["meta_files"]
            .as_array()
            .map(|a| {
                a.iter()
                    .map(|e| (e[0].as_str().unwrap().to_string(), unhex(e[1].as_str().unwrap())))
                    .collect()
            })
            .unwrap_or_default();
        CCase {
            src_seed: v["src"][0].as_u64().unwrap(),
            src_class: class_from(v["src"][1].as_str().unwrap()),
            src_len: v["src"][2].as_u64().unwrap() as usize,
            len_class: v["src"][3].as_str().unwrap().to_string(),
            spec,
            writer: Writer::from_name(v["writer"].as_str().unwrap()),
        }
    }
    pub fn key(&self) -> String {
        format!(
            "{}/{}/{}/{:?}/{}/{}",
            class_name(self.src_class),
            self.len_class,
            self.writer.name(),
            self.spec.cfg.algo,
            self.spec.comp.family(),
            self.spec.hash_len
        )
    }
}

/// Generate a compress case. `large`: 1–5 MiB source with chunks around / above the
/// 1 MiB refill buffer.
pub fn gen_case(rng: &mut Rng, large: bool, cheap_comp: bool) -> CCase {
    let writer = match rng.below(5) {
        0 | 1 => Writer::CliFile,
        2 | 3 => Writer::CliStdin,
        _ => Writer::Lib,
    };
    let cli = writer != Writer::Lib;
    let (cfg, src_len, len_class): (Cfg, usize, String) = if large {
        let cfg = match rng.below(4) {
            0 => Cfg::fixed(rng.urange((1 << 20) - 2, (1 << 20) + 700_000)),
            1 => Cfg {
                algo: Algo::RollSum,
                window: 64,
                min: rng.urange(900_000, 1_300_000),
                max: 1 << 21,
                bits: 20,
            },
            2 => Cfg {
                algo: Algo::BuzHash,
                window: 16,
                min: 1 << 19,
                max: (1 << 21) + rng.urange(0, 1000),
                bits: 20,
            },
            _ => Cfg {
                algo: Algo::RollSum,
                window: 64,
                min: 16 * 1024,
                max: 16 << 20,
                bits: 15,
            },
        };
        let len = match rng.below(4) {
            0 => (1 << 20) + rng.urange(0, 3) - 1,
            1 => (2 << 20) + rng.urange(0, 3) - 1,
            _ => rng.urange(1 << 20, 5 << 20),
        };
        (cfg, len, "large".into())
    } else {
        let cfg = if cli { gen::gen_cli_cfg(rng, false) } else { gen::gen_small_cfg(rng) };
        let w = cfg.window.max(1);
        let (len, class) = match rng.below(12) {
            0 => (0, "empty"),
            1 => (1, "one"),
            2 => (rng.urange(1, w), "lt_window"),
            3 => (rng.urange(0, cfg.min.max(1)), "lt_min"),
            4 => ((cfg.min + rng.urange(0, 2)).saturating_sub(1), "min+-1"),
            5 => ((cfg.max + rng.urange(0, 2)).saturating_sub(1), "max+-1"),
            6 => (cfg.max * rng.urange(1, 4) + rng.urange(0, 2), "k*max"),
            _ => (rng.urange(0, 66_000), "random"),
        };
        (cfg, len.min(200_000), class.to_string())
    };
    let comp = gen::gen_comp(rng, cheap_comp || large);
    // The top levels cost milliseconds per call whatever the input size (table set-up):
    // keep the number of chunks small for them, or one case burns minutes of CPU.
    let expensive = matches!(comp, Comp::Zstd(l) if l >= 13) || matches!(comp, Comp::Lzma(l) if l >= 6) || matches!(comp, Comp::Brotli(l) if l >= 10);
    let src_len = if expensive && !large {
        let typical = match cfg.algo {
            Algo::Fixed => cfg.max,
            _ => ((1usize << (cfg.bits + 1)).min(cfg.max)).max(cfg.min).max(1),
        };
        src_len.min(typical * 60 + 17)
    } else {
        src_len
    };
    let hash_len = *rng.pick(&[4usize, 5, 8, 16, 20, 32, 63, 64]);
    let mut spec = CompressSpec::new(cfg, comp, hash_len);
    spec.buffered = *rng.pick(&[None, Some(1), Some(2), Some(3), Some(8), Some(64)]);
    if writer == Writer::CliStdin {
        spec.stdin = Some(if rng.chance(1, 3) { 0 } else { rng.next_u64() | 1 });
    }
    if cli && rng.chance(1, 5) {
        // --force-create over an existing file: smaller, about equal, or much larger than
        // the archive that will be written.
        spec.force = true;
        spec.preexisting = Some(match rng.below(5) {
            // 0 = "the same command has been run before" (see run_cli)
            4 => 0,
            0 => rng.urange(1, 100),
            1 => src_len + rng.urange(0, 2000),
            _ => src_len * 2 + rng.urange(1000, 300_000),
        });
    }
    if cli && rng.chance(1, 6) {
        // Leftover of an earlier failed compress: a temp file, empty / short / far longer
        // than what this run will write.
        spec.stale_temp = Some(*rng.pick(&[0usize, 33, 500_000]));
    }
    // With 4/5-byte hashes keep the number of distinct chunks tiny relative to 2^32.
    // the extended classes include sources whose compressibility changes along the stream
    let src_class = *rng.pick(&gen::SRC_CLASSES_EXT);
    CCase {
        src_seed: rng.next_u64(),
        src_class,
        src_len,
        len_class,
        spec,
        writer,
    }
}

pub struct CObs {
    pub exit: Exit,
    pub archive: Option<Vec<u8>>,
    /// Completion-order fingerprint from hook events (None when no events).
    pub fingerprint: Option<String>,
    pub hook_events: usize,
    pub max_overlap: usize,
    /// temp-file bytes written == bytes handed to the archive, and every write
    /// finished before the hand-off started (CLI writers only).
    pub handoff_ok: Option<bool>,
    pub temp_left: bool,
    pub temp_writes: usize,
    pub tail: String,
    pub wall_ms: u64,
}

pub fn fingerprint(ev: &[HookEvent]) -> (Option<String>, usize) {
    if ev.is_empty() {
        return (None, 0);
    }
    let mut order = Vec::new();
    let mut open = 0usize;
    let mut max_open = 0usize;
    for e in ev {
        if e.begin {
            open += 1;
            max_open = max_open.max(open);
        } else {
            open = open.saturating_sub(1);
            order.extend_from_slice(&e.key.to_le_bytes());
            order.extend_from_slice(e.site.as_bytes());
        }
    }
    (Some(format!("{:016x}", fnv64(&order))), max_open)
}

fn handoff(o: &Outcome, temp_widx: i32) -> (Option<bool>, usize) {
    let writes: Vec<_> = o
        .shim
        .iter()
        .filter(|r| r.widx == temp_widx && r.kind == K_WRITE && r.ret > 0)
        .collect();
    let written: u64 = writes.iter().map(|r| r.ret as u64).sum();
    let last_write_end = writes.iter().map(|r| r.seq1).max();
    let reads: Vec<_> = o
        .shim
        .iter()
        .filter(|r| r.widx == temp_widx && (r.kind == K_COPY || r.kind == K_READ) && r.ret > 0)
        .collect();
    let copied: u64 = reads.iter().map(|r| r.ret as u64).sum();
    let first_read = reads.iter().map(|r| r.seq0).min();
    if writes.is_empty() && reads.is_empty() {
        return (None, 0);
    }
    let ordered = match (last_write_end, first_read) {
        (Some(w), Some(r)) => w < r,
        _ => true,
    };
    (Some(written == copied && ordered), writes.len())
}

pub fn run_cli(dir: &Path, name: &str, source: &[u8], spec: &CompressSpec, inj: &Injection) -> CObs {
    let (mut run, out_path) = scn::compress_run(dir, name, source, spec);
    let _ = std::fs::remove_file(&out_path);
    if let (true, Some(n)) = (spec.force, spec.preexisting) {
        // An older file at the output path, to be replaced by --force-create.
        let junk = Rng::new(n as u64 ^ 0x01d).bytes(n);
        std::fs::write(&out_path, junk).expect("write pre-existing output");
    }
    let temp = scn::temp_path_of(&out_path);
    if spec.force && spec.preexisting == Some(0) {
        // Idempotent re-run: the output already holds the archive this very command wrote.
        let mut first = scn::compress_run(dir, name, source, spec).0;
        first.use_shim = false;
        let _ = proc::run(&first);
    }
    if let Some(n) = spec.stale_temp {
        std::fs::write(&temp, Rng::new(n as u64 ^ 0x7e).bytes(n)).expect("write stale temp file");
    }
    let src_path = dir.join(format!("{}.src", name));
    run.watch = vec![out_path.clone(), temp.clone(), src_path];
    run.log_reads = true;
    run.hook_log = true;
    if inj.hook_delay_us > 0 {
        run.hook_delay = Some(format!("{},{},chunk.", inj.seed, inj.hook_delay_us));
    }
    if inj.temp_write_delay_us > 0 {
        run.delays.push(format!("1,{},{},w", inj.seed ^ 0x11, inj.temp_write_delay_us));
    }
    if inj.input_read_delay_us > 0 {
        run.delays.push(format!("2,{},{},r", inj.seed ^ 0x22, inj.input_read_delay_us));
    }
    run.workers = inj.workers;
    // One `-i FILE` case in six names a pipe instead of a regular file: what the path is
    // (its stat size, whether it can be seeked) must not matter, only the bytes it delivers.
    let mut feeder = None;
    if spec.stdin.is_none() && inj.seed % 6 == 1 {
        if let Some(i) = run.args.iter().position(|a| a == "-i" || a == "--input") {
            if let Some(f) = scn::FifoFeeder::start(dir.join(format!("{}.src.fifo", name)), source.to_vec()) {
                run.args[i + 1] = proc::p(&f.path);
                feeder = Some(f);
            }
        }
    }
    if inj.seed % 7 == 3 {
        // paths spelled relative to the working directory (the temp file name derives from
        // the output path as it was given)
        run.relativize_args(((inj.seed >> 5) % 2) as u8);
    }
    if spec.buffered.is_none() && inj.seed % 5 == 2 {
        // default --buffered-chunks on a single-CPU machine
        run.one_cpu = Some(inj.seed as usize >> 4);
    }
    let o = proc::run(&run);
    if let Some(f) = feeder {
        f.finish();
    }
    let archive = std::fs::read(&out_path).ok();
    let (fp, overlap) = fingerprint(&o.hooks);
    let (hand, tw) = handoff(&o, 1);
    CObs {
        exit: o.exit,
        archive,
        fingerprint: fp,
        hook_events: o.hooks.len(),
        max_overlap: overlap,
        handoff_ok: hand,
        temp_left: temp.exists(),
        temp_writes: tw,
        tail: o.tail(),
        wall_ms: o.wall.as_millis() as u64,
    }
}

/// Library writer in a worker subprocess of the harness itself, so that the
/// env-configured hook log / delays are per run.
pub fn run_lib(dir: &Path, name: &str, source: &[u8], spec: &CompressSpec, inj: &Injection, frag_seed: u64) -> CObs {
    let src_path = dir.join(format!("{}.src", name));
    let out_path = dir.join(format!("{}.cba", name));
    let spec_path = dir.join(format!("{}.libspec", name));
    let hook_path = dir.join(format!("{}.libhooks", name));
    let _ = std::fs::remove_file(&out_path);
    let _ = std::fs::remove_file(&hook_path);
    std::fs::write(&src_path, source).expect("write source");
    let meta: Vec<(String, String)> = spec
        .metadata_files
        .iter()
        .map(|(k, v)| (k.clone(), hex(v)))
        .chain(spec.metadata_values.iter().map(|(k, v)| (k.clone(), hex(v.as_bytes()))))
        .collect();
    let j = json!({
        "src": src_path, "out": out_path, "cfg": super::c09::cfg_json(&spec.cfg),
        "comp": spec.comp.describe(), "hash_len": spec.hash_len,
        "buffered": spec.buffered.unwrap_or(4), "meta": meta, "frag_seed": frag_seed,
        "workers": inj.workers.unwrap_or(4),
    });
    std::fs::write(&spec_path, serde_json::to_string(&j).unwrap()).unwrap();
    let exe = std::env::current_exe().expect("current exe");
    let mut cmd = std::process::Command::new(exe);
    cmd.arg("worker").arg("libcompress").arg(&spec_path);
    cmd.env("BITA_VERIF_LOG", &hook_path);
    if inj.hook_delay_us > 0 {
        cmd.env("BITA_VERIF_DELAY", format!("{},{},chunk.", inj.seed, inj.hook_delay_us));
    } else {
        cmd.env_remove("BITA_VERIF_DELAY");
    }
    cmd.env("RUST_BACKTRACE", "0");
    // same memory gate as the CLI children (see proc::mem_gate)
    let level = match spec.comp {
        crate::gen::Comp::None => 0,
        crate::gen::Comp::Brotli(l) | crate::gen::Comp::Zstd(l) | crate::gen::Comp::Lzma(l) => l as u64,
    };
    let _mem = proc::mem_gate(proc::codec_ctx_mb(spec.comp.family(), level) * spec.buffered.unwrap_or(4).clamp(1, 2 * crate::util::ncpu()) as u64 + 30);
    let start = std::time::Instant::now();
    let out = cmd.output();
    let (exit, tail) = match out {
        Ok(o) => {
            let mut t = String::from_utf8_lossy(&o.stdout).to_string();
            t.push_str(&String::from_utf8_lossy(&o.stderr));
            let e = match o.status.code() {
                Some(c) => Exit::Code(c),
                None => Exit::Signal(std::os::unix::process::ExitStatusExt::signal(&o.status).unwrap_or(0)),
            };
            (e, t.chars().rev().take(500).collect::<String>().chars().rev().collect())
        }
        Err(e) => (Exit::Timeout, format!("spawn: {}", e)),
    };
    let hooks = std::fs::read_to_string(&hook_path)
        .map(|s| proc::parse_hook_log(&s))
        .unwrap_or_default();
    let (fp, overlap) = fingerprint(&hooks);
    CObs {
        exit,
        archive: std::fs::read(&out_path).ok(),
        fingerprint: fp,
        hook_events: hooks.len(),
        max_overlap: overlap,
        handoff_ok: None,
        temp_left: false,
        temp_writes: 0,
        tail,
        wall_ms: start.elapsed().as_millis() as u64,
    }
}

pub fn run_case(dir: &Path, name: &str, source: &[u8], case: &CCase, inj: &Injection) -> CObs {
    match case.writer {
        Writer::Lib => run_lib(dir, name, source, &case.spec, inj, (inj.seed >> 3).wrapping_add(source.len() as u64)),
        _ => run_cli(dir, name, source, &case.spec, inj),
    }
}

/// Worker entry: `bvh worker libcompress <spec.json>`.
pub fn worker_libcompress(spec_path: &str) -> i32 {
    let v: Value = serde_json::from_str(&std::fs::read_to_string(spec_path).expect("spec")).expect("json");
    let source = std::sync::Arc::new(std::fs::read(v["src"].as_str().unwrap()).expect("src"));
    let comp_s = v["comp"].as_str().unwrap();
    let comp = if comp_s == "none" {
        Comp::None
    } else {
        let (f, l) = comp_s.split_once('-').unwrap();
        let l: u32 = l.parse().unwrap();
        match f {
            "brotli" => Comp::Brotli(l),
            "zstd" => Comp::Zstd(l),
            _ => Comp::Lzma(l),
        }
    };
    let frag_seed = v["frag_seed"].as_u64().unwrap();
    let spec = crate::lib_drv::LibCompressSpec {
        cfg: super::c09::cfg_from(&v["cfg"]),
        comp,
        hash_len: v["hash_len"].as_u64().unwrap() as usize,
        buffered: v["buffered"].as_u64().unwrap() as usize,
        metadata: v["meta"]
            .as_array()
            .unwrap()
            .iter()
            .map(|e| (e[0].as_str().unwrap().to_string(), unhex(e[1].as_str().unwrap())))
            .collect(),
        frag: if frag_seed % 4 == 1 {
            FragPlan::All
        } else {
            FragPlan::Random { seed: frag_seed, max: 1 + (frag_seed % 100_000) as usize }
        },
        pend: if frag_seed % 3 == 0 {
            PendPlan::Never
        } else {
            PendPlan::Random { seed: frag_seed ^ 9, num: 1, den: 5 }
        },
    };
    let rt = crate::exec::rt_multi(v["workers"].as_u64().unwrap() as usize);
    if frag_seed % 5 >= 3 {
        // Process history: a library user writes many archives in one process. Before the
        // judged archive, write one or two others with different settings (another level of
        // the same codec, another chunker, hash length, metadata) and discard them; what a
        // process did before must not show in the next archive.
        for k in 0..(1 + frag_seed % 2) {
            let other = match comp {
                Comp::None => Comp::Brotli(2),
                Comp::Brotli(l) => Comp::Brotli(if l >= 6 { 1 + (k as u32) } else { 9 + (k as u32) }),
                Comp::Zstd(l) => Comp::Zstd(if l >= 10 { 1 + (k as u32) } else { 15 + (k as u32) }),
                Comp::Lzma(l) => Comp::Lzma(if l >= 5 { 1 + (k as u32) } else { 7 + (k as u32) }),
            };
            let mut psrc = Vec::new();
            for i in 0..6000u32 {
                psrc.push(b"abcabcabd"[(i as usize + k as usize) % 9] ^ ((i / 700) as u8));
            }
            let pspec = crate::lib_drv::LibCompressSpec {
                cfg: if k == 0 { r1::Cfg::fixed(997) } else { r1::Cfg { algo: r1::Algo::BuzHash, window: 8, min: 16, max: 900, bits: 5 } },
                comp: other,
                hash_len: 13,
                buffered: 2,
                metadata: vec![("prelude".to_string(), vec![1, 2, 3])],
                frag: FragPlan::All,
                pend: PendPlan::Never,
            };
            let _ = rt.block_on(crate::lib_drv::lib_compress(std::sync::Arc::new(psrc), &pspec));
        }
    }
    if frag_seed % 2 == 0 {
        // Sink variant: buffering writer handed over by value.
        return match rt.block_on(crate::lib_drv::lib_compress_to_file(source, &spec, std::path::Path::new(v["out"].as_str().unwrap()))) {
            Ok(()) => {
                // let the runtime's blocking file operations settle before exiting
                drop(rt);
                0
            }
            Err(e) => {
                eprintln!("libcompress failed: {}", e);
                1
            }
        };
    }
    match rt.block_on(crate::lib_drv::lib_compress(source, &spec)) {
        Ok(bytes) => {
            std::fs::write(v["out"].as_str().unwrap(), bytes).expect("write out");
            0
        }
        Err(e) => {
            eprintln!("libcompress failed: {}", e);
            1
        }
    }
}

/// Parameters the dictionary must record for a spec.
pub fn expected_params(spec: &CompressSpec) -> Params {
    match spec.cfg.algo {
        Algo::Fixed => Params {
            filter_bits: 0,
            min: 0,
            max: spec.cfg.max as u32,
            window: 0,
            hash_len: spec.hash_len as u32,
            algo: 2,
        },
        a => Params {
            filter_bits: spec.cfg.bits,
            min: spec.cfg.min as u32,
            max: spec.cfg.max as u32,
            window: spec.cfg.window as u32,
            hash_len: spec.hash_len as u32,
            algo: if a == Algo::BuzHash { 0 } else { 1 },
        },
    }
}

pub fn expected_metadata(spec: &CompressSpec) -> Vec<(String, Vec<u8>)> {
    // CLI: strings are inserted first, then files (files win on equal keys).
    let mut m: std::collections::BTreeMap<String, Vec<u8>> = std::collections::BTreeMap::new();
    for (k, v) in &spec.metadata_values {
        m.insert(k.clone(), v.as_bytes().to_vec());
    }
    for (k, v) in &spec.metadata_files {
        m.insert(k.clone(), v.clone());
    }
    m.into_iter().collect()
}

/// C11 oracle: strict conformance of an archive against what was requested.
pub fn conformance(archive: &[u8], source: &[u8], spec: &CompressSpec) -> Result<codec::Parsed, String> {
    let chunks = r1::chunk(&spec.cfg, source);
    let ex = Expect {
        source,
        chunks: &chunks,
        params: expected_params(spec),
        compression: spec.comp.dict_values(),
        metadata: expected_metadata(spec),
    };
    codec::strict_check(archive, &ex)
}

/// True if two distinct chunks of the source share a truncated hash (dropped as
/// inconclusive: outside the property's assumptions).
pub fn truncated_collision(source: &[u8], cfg: &Cfg, hash_len: usize) -> bool {
    let mut seen: std::collections::HashMap<Vec<u8>, [u8; 64]> = std::collections::HashMap::new();
    for (o, l) in r1::chunk(cfg, source) {
        let full = crate::util::b2(&source[o..o + l]);
        if let Some(prev) = seen.insert(full[..hash_len.min(64)].to_vec(), full) {
            if prev != full {
                return true;
            }
        }
    }
    false
}
