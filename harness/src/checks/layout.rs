//! Library-level in-place engine shared by C03 / C13 / C05: small (prior, target)
//! chunk layouts executed against the real ChunkIndex planner and CloneOutput executor
//! on an instrumented in-memory file.
use crate::exec::block_on_busy;
use crate::inst::{MemFile, WriteFault};
use crate::util::{b2, Rng};
use bitar::{ChunkIndex, CloneOutput, HashSum, ReorderOp};

pub const GARBAGE: usize = usize::MAX;

#[derive(Clone, Debug, PartialEq, Eq)]
pub struct Layout {
    /// Size of each chunk identity.
    pub sizes: Vec<usize>,
    /// Prior output: slots of (identity | GARBAGE, size). Size matters for garbage only.
    pub prior: Vec<(usize, usize)>,
    /// Target: identities in order.
    pub target: Vec<usize>,
    pub hash_len: usize,
}

pub fn content(id: usize, size: usize) -> Vec<u8> {
    (0..size).map(|j| (id as u8 + 1).wrapping_mul(16).wrapping_add(j as u8)).collect()
}

impl Layout {
    pub fn prior_bytes(&self) -> Vec<u8> {
        let mut v = Vec::new();
        for &(id, sz) in &self.prior {
            if id == GARBAGE {
                v.extend(std::iter::repeat(0xEEu8).take(sz));
            } else {
                v.extend(content(id, self.sizes[id]));
            }
        }
        v
    }
    pub fn target_bytes(&self) -> Vec<u8> {
        let mut v = Vec::new();
        for &id in &self.target {
            v.extend(content(id, self.sizes[id]));
        }
        v
    }
    pub fn hash_of(&self, id: usize) -> HashSum {
        HashSum::from(&b2(&content(id, self.sizes[id]))[..])
    }
    /// (offset, id) of every non-garbage prior slot.
    pub fn prior_locs(&self) -> Vec<(u64, usize)> {
        let mut off = 0u64;
        let mut v = Vec::new();
        for &(id, sz) in &self.prior {
            if id == GARBAGE {
                off += sz as u64;
            } else {
                v.push((off, id));
                off += self.sizes[id] as u64;
            }
        }
        v
    }
    pub fn target_locs(&self) -> Vec<(u64, usize)> {
        let mut off = 0u64;
        let mut v = Vec::new();
        for &id in &self.target {
            v.push((off, id));
            off += self.sizes[id] as u64;
        }
        v
    }
    pub fn prior_index(&self) -> ChunkIndex {
        let mut ci = ChunkIndex::new_empty(self.hash_len);
        for (off, id) in self.prior_locs() {
            ci.add_chunk(self.hash_of(id), self.sizes[id], &[off]);
        }
        ci
    }
    pub fn target_index(&self) -> ChunkIndex {
        let mut ci = ChunkIndex::new_empty(self.hash_len);
        for (off, id) in self.target_locs() {
            ci.add_chunk(self.hash_of(id), self.sizes[id], &[off]);
        }
        ci
    }
    /// Source locations already holding the right chunk in the prior output.
    pub fn in_place(&self) -> Vec<(u64, usize)> {
        let p: std::collections::HashSet<(u64, usize)> = self.prior_locs().into_iter().collect();
        self.target_locs()
            .into_iter()
            .filter(|x| p.contains(x))
            .map(|(o, id)| (o, self.sizes[id]))
            .collect()
    }
    pub fn describe(&self) -> String {
        let p: Vec<String> = self
            .prior
            .iter()
            .map(|&(id, sz)| if id == GARBAGE { format!("g{}", sz) } else { format!("{}", (b'A' + id as u8) as char) })
            .collect();
        let t: Vec<String> = self.target.iter().map(|&id| format!("{}", (b'A' + id as u8) as char)).collect();
        format!("sizes={:?} prior=[{}] target=[{}] hash_len={}", self.sizes, p.join(" "), t.join(" "), self.hash_len)
    }
    pub fn to_json(&self) -> serde_json::Value {
        serde_json::json!({"sizes": self.sizes, "prior": self.prior.iter().map(|&(i, s)| if i == GARBAGE { (-1i64, s) } else { (i as i64, s) }).collect::<Vec<_>>(),
            "target": self.target, "hash_len": self.hash_len})
    }
    pub fn from_json(v: &serde_json::Value) -> Layout {
        Layout {
            sizes: v["sizes"].as_array().unwrap().iter().map(|x| x.as_u64().unwrap() as usize).collect(),
            prior: v["prior"].as_array().unwrap().iter().map(|e| {
                let i = e[0].as_i64().unwrap();
                (if i < 0 { GARBAGE } else { i as usize }, e[1].as_u64().unwrap() as usize)
            }).collect(),
            target: v["target"].as_array().unwrap().iter().map(|x| x.as_u64().unwrap() as usize).collect(),
            hash_len: v["hash_len"].as_u64().unwrap() as usize,
        }
    }
}

#[derive(Debug, Default)]
pub struct ExecResult {
    pub final_bytes: Vec<u8>,
    pub writes: Vec<(u64, Vec<u8>)>,
    pub write_calls: u64,
    /// Chunks still in the clone index after reordering (they would be fetched).
    pub fetched_ids: Vec<usize>,
    pub error: Option<String>,
    pub panicked: Option<String>,
    pub fault_fired: bool,
    pub reorder_reported: u64,
}

/// Execute a layout with the real planner and executor.
/// chaos: Some((seed, max_xfer, pend_den)) for short transfers and Pending.
pub fn execute(l: &Layout, prior_bytes: Vec<u8>, fault: WriteFault, chaos: Option<(u64, usize, u64)>) -> ExecResult {
    let l2 = l.clone();
    let r = std::panic::catch_unwind(std::panic::AssertUnwindSafe(move || {
        let l = &l2;
        let mut mf = MemFile::new(prior_bytes).with_fault(fault);
        if let Some((s, x, p)) = chaos {
            mf = mf.with_chaos(s, x, p);
        }
        let mut out = CloneOutput::new(mf, l.target_index());
        let mut res = ExecResult::default();
        let fut = async {
            let used = out
                .reorder_in_place(l.prior_index())
                .await
                .map_err(|e| format!("reorder_in_place: {}", e))?;
            let mut remaining: Vec<usize> = Vec::new();
            let ids: std::collections::BTreeSet<usize> = l.target.iter().copied().collect();
            for id in ids {
                if out.chunks().contains(&l.hash_of(id)) {
                    remaining.push(id);
                }
            }
            for &id in &remaining {
                let v = bitar::Chunk::from(content(id, l.sizes[id])).verify();
                out.feed(&v).await.map_err(|e| format!("feed: {}", e))?;
            }
            Ok::<(u64, Vec<usize>), String>((used, remaining))
        };
        match block_on_busy(fut, 10_000_000) {
            None => res.error = Some("hang".into()),
            Some(Err(e)) => res.error = Some(e),
            Some(Ok((used, remaining))) => {
                res.reorder_reported = used;
                res.fetched_ids = remaining;
            }
        }
        let file = out.into_inner();
        res.writes = file.write_log();
        res.write_calls = file.writes;
        res.fault_fired = file.fault_fired;
        res.final_bytes = file.data;
        res
    }));
    match r {
        Ok(res) => res,
        Err(p) => ExecResult {
            panicked: Some(
                p.downcast_ref::<String>()
                    .cloned()
                    .or_else(|| p.downcast_ref::<&str>().map(|s| s.to_string()))
                    .unwrap_or_else(|| "panic".into()),
            ),
            ..Default::default()
        },
    }
}

/// C03 oracle for an uninterrupted execution.
pub fn judge_c03(l: &Layout, r: &ExecResult) -> Result<(), String> {
    if let Some(p) = &r.panicked {
        return Err(format!("panic on a valid layout: {}", p));
    }
    if let Some(e) = &r.error {
        return Err(format!("error on a valid layout: {}", e));
    }
    let target = l.target_bytes();
    let mut fin = r.final_bytes.clone();
    fin.resize(target.len(), 0); // the CLI's final resize
    if fin != target {
        return Err(format!(
            "output differs from target at byte {:?}",
            crate::util::first_diff(&fin, &target)
        ));
    }
    // No reusable chunk may be lost: what is fetched must not have been present.
    let present: std::collections::HashSet<usize> = l.prior_locs().into_iter().map(|x| x.1).collect();
    for id in &r.fetched_ids {
        if present.contains(id) {
            return Err(format!(
                "chunk {} was present in the prior output but had to be fetched after reordering",
                (b'A' + *id as u8) as char
            ));
        }
    }
    Ok(())
}

/// C13 oracle on the in-memory write log.
pub fn judge_c13(l: &Layout, r: &ExecResult) -> Result<(), String> {
    let target = l.target_bytes();
    let n = target.len();
    let mut written = vec![false; n];
    let mut in_place = vec![false; n];
    for (o, s) in l.in_place() {
        for x in in_place.iter_mut().skip(o as usize).take(s) {
            *x = true;
        }
    }
    for (wi, (off, data)) in r.writes.iter().enumerate() {
        for (j, b) in data.iter().enumerate() {
            let pos = *off as usize + j;
            if pos >= n {
                return Err(format!("write #{} at {} goes beyond the source length {}", wi, off, n));
            }
            if *b != target[pos] {
                return Err(format!("write #{} at {} writes a byte that is not the source's", wi, off));
            }
            if in_place[pos] {
                return Err(format!("write #{} at {} touches a location already in place", wi, off));
            }
            if written[pos] {
                return Err(format!("write #{} at {} writes position {} a second time", wi, off, pos));
            }
            written[pos] = true;
        }
    }
    for (o, id) in l.target_locs() {
        let s = l.sizes[id];
        let c = written[o as usize..o as usize + s].iter().filter(|x| **x).count();
        if c != 0 && c != s {
            return Err(format!("location {}+{} written partially", o, s));
        }
    }
    Ok(())
}

/// Offline simulator over the planner's public output: every Copy is judged at the
/// moment it would write (a stale StoreInMem that no Copy uses is legal).
pub fn judge_ops(l: &Layout) -> Result<(usize, usize), String> {
    let l2 = l.clone();
    match std::panic::catch_unwind(move || judge_ops_inner(&l2)) {
        Ok(r) => r,
        Err(p) => Err(format!(
            "panic on a valid layout: {}",
            p.downcast_ref::<String>()
                .cloned()
                .or_else(|| p.downcast_ref::<&str>().map(|s| s.to_string()))
                .unwrap_or_else(|| "panic".into())
        )),
    }
}

fn judge_ops_inner(l: &Layout) -> Result<(usize, usize), String> {
    let prior_index = l.prior_index();
    let mut target_index = l.target_index();
    prior_index.strip_chunks_already_in_place(&mut target_index);
    let ops = prior_index.reorder_ops(&target_index);
    // byte-level model file: Some((id, byte index)) or None for garbage
    let mut file: Vec<Option<(usize, usize)>> = Vec::new();
    for &(id, sz) in &l.prior {
        if id == GARBAGE {
            file.extend(std::iter::repeat(None).take(sz));
        } else {
            file.extend((0..l.sizes[id]).map(|j| Some((id, j))));
        }
    }
    let id_of = |h: &HashSum| -> Option<usize> { (0..l.sizes.len()).find(|&i| l.hash_of(i).slice()[..h.len()] == *h.slice()) };
    let mut mem: std::collections::HashMap<usize, Vec<Option<(usize, usize)>>> = std::collections::HashMap::new();
    let (mut copies, mut stores) = (0, 0);
    let read = |file: &Vec<Option<(usize, usize)>>, src: u64, size: usize| -> Vec<Option<(usize, usize)>> {
        (0..size).map(|j| file.get(src as usize + j).copied().flatten()).collect()
    };
    for op in &ops {
        match op {
            ReorderOp::StoreInMem { hash, size, source } => {
                stores += 1;
                let id = id_of(hash).ok_or("planner names an unknown hash")?;
                mem.entry(id).or_insert_with(|| read(&file, *source, *size));
            }
            ReorderOp::Copy { hash, size, source, dest } => {
                copies += 1;
                let id = id_of(hash).ok_or("planner names an unknown hash")?;
                let data = mem.remove(&id).unwrap_or_else(|| read(&file, *source, *size));
                let good = *size == l.sizes[id] && data.iter().enumerate().all(|(j, x)| *x == Some((id, j)));
                if !good {
                    return Err(format!(
                        "Copy of chunk {} from offset {} would write data that is no longer that chunk (destroyed before it was copied or buffered)",
                        (b'A' + id as u8) as char,
                        source
                    ));
                }
                for d in dest {
                    let d = *d as usize;
                    if file.len() < d + size {
                        file.resize(d + size, None);
                    }
                    for j in 0..*size {
                        file[d + j] = Some((id, j));
                    }
                }
            }
        }
    }
    Ok((copies, stores))
}

/// Enumerate all layouts with `k` identities (sizes from `sizes`), up to `n` prior
/// slots (identity or garbage of size 1 or 2) and up to `m` target slots; calls `f`.
pub fn enumerate(k: usize, n: usize, m: usize, sizes: &[usize], shard: usize, shards: usize, f: &mut dyn FnMut(&Layout)) {
    let ns = sizes.len();
    let mut count = 0usize;
    let size_assignments = ns.pow(k as u32);
    for sa in 0..size_assignments {
        let mut sz = Vec::new();
        let mut x = sa;
        for _ in 0..k {
            sz.push(sizes[x % ns]);
            x /= ns;
        }
        for pn in 0..=n {
            let pslots = k + 2; // identities + garbage1 + garbage2
            for pa in 0..pslots.pow(pn as u32) {
                let mut prior = Vec::new();
                let mut x = pa;
                for _ in 0..pn {
                    let s = x % pslots;
                    x /= pslots;
                    prior.push(if s < k { (s, sz[s]) } else { (GARBAGE, s - k + 1) });
                }
                for tn in 0..=m {
                    for ta in 0..k.pow(tn as u32) {
                        count += 1;
                        if count % shards != shard {
                            continue;
                        }
                        let mut target = Vec::new();
                        let mut x = ta;
                        for _ in 0..tn {
                            target.push(x % k);
                            x /= k;
                        }
                        f(&Layout { sizes: sz.clone(), prior: prior.clone(), target, hash_len: 64 });
                    }
                }
            }
        }
    }
}

pub fn random_layout(rng: &mut Rng, max_slots: usize, max_ids: usize, max_size: usize) -> Layout {
    let k = rng.urange(1, max_ids);
    let sizes: Vec<usize> = (0..k).map(|_| rng.urange(1, max_size)).collect();
    let pn = rng.urange(0, max_slots);
    let tn = rng.urange(0, max_slots);
    let prior = (0..pn)
        .map(|_| {
            if rng.chance(1, 5) {
                (GARBAGE, rng.urange(1, max_size))
            } else {
                let id = rng.usize_below(k);
                (id, sizes[id])
            }
        })
        .collect();
    let target = (0..tn).map(|_| rng.usize_below(k)).collect();
    Layout {
        sizes,
        prior,
        target,
        hash_len: *rng.pick(&[4usize, 5, 8, 32, 64]),
    }
}

/// Classify a layout for evidence.
pub fn classify(l: &Layout, copies: usize, stores: usize) -> Vec<&'static str> {
    let mut v = Vec::new();
    if stores > 0 {
        v.push("cycle(StoreInMem)");
    }
    if copies > 0 {
        v.push("moves");
    }
    if !l.in_place().is_empty() {
        v.push("in_place");
    }
    let mut seen = std::collections::HashSet::new();
    if l.prior.iter().any(|(id, _)| *id != GARBAGE && !seen.insert(*id)) {
        v.push("duplicate_in_prior");
    }
    let mut seen = std::collections::HashSet::new();
    if l.target.iter().any(|id| !seen.insert(*id)) {
        v.push("duplicate_in_target");
    }
    let present: std::collections::HashSet<usize> = l.prior.iter().map(|x| x.0).collect();
    if l.target.iter().any(|id| !present.contains(id)) && l.target.iter().any(|id| present.contains(id)) {
        v.push("partial_presence");
    }
    let pl = l.prior_bytes().len();
    let tl = l.target_bytes().len();
    v.push(if pl < tl { "prior_shorter" } else if pl == tl { "prior_equal" } else { "prior_longer" });
    v
}
