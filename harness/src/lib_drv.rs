//! Library-level drivers: compress and clone through bitar's public API over our
//! instrumented I/O objects. These mirror what bitar's own examples do; every
//! property about a *CLI* clone or compress is decided on the real process instead.
use crate::gen::{self, Comp};
use crate::inst::{FragPlan, FragSource, MemFile, PendPlan};
use crate::refimpl::chunker::Cfg;
use bitar::archive_reader::{ArchiveReader, HttpReader, IoReader};
use bitar::{Archive, CloneOutput};
use futures_util::StreamExt;
use std::collections::BTreeMap;
use std::sync::Arc;

#[derive(Clone, Debug)]
pub struct LibCompressSpec {
    pub cfg: Cfg,
    pub comp: Comp,
    pub hash_len: usize,
    pub buffered: usize,
    pub metadata: Vec<(String, Vec<u8>)>,
    pub frag: FragPlan,
    pub pend: PendPlan,
}

/// Run bitar::api::compress::create_archive. Must be called inside a tokio runtime.
pub async fn lib_compress(source: Arc<Vec<u8>>, spec: &LibCompressSpec) -> Result<Vec<u8>, String> {
    let opts = bitar::api::compress::CreateArchiveOptions {
        chunker_config: gen::to_bitar_config(&spec.cfg),
        num_chunk_buffers: spec.buffered,
        chunk_hash_length: spec.hash_len,
        temporary_file_override: None,
        compression: spec.comp.to_bitar(),
        metadata: spec.metadata.iter().cloned().collect::<BTreeMap<_, _>>(),
    };
    let input = FragSource::new(source, spec.frag.clone(), spec.pend.clone());
    // Half of the in-memory sinks accept only part of what they are offered per call (a
    // socket, a pipe, a rate-limited writer) and sometimes say Pending first.
    let short = match &spec.frag {
        crate::inst::FragPlan::Random { seed, .. } => seed % 2 == 1,
        _ => false,
    };
    if short {
        let mut out = ShortSink { data: Vec::new(), calls: 0 };
        bitar::api::compress::create_archive(input, &mut out, &opts)
            .await
            .map_err(|e| format!("create_archive: {:?}", e))?;
        return Ok(out.data);
    }
    let mut out: Vec<u8> = Vec::new();
    bitar::api::compress::create_archive(input, &mut out, &opts)
        .await
        .map_err(|e| format!("create_archive: {:?}", e))?;
    Ok(out)
}

/// An AsyncWrite that takes at most a few bytes per call and returns Pending now and then.
pub struct ShortSink {
    pub data: Vec<u8>,
    calls: u64,
}

impl tokio::io::AsyncWrite for ShortSink {
    fn poll_write(mut self: std::pin::Pin<&mut Self>, cx: &mut std::task::Context<'_>, buf: &[u8]) -> std::task::Poll<std::io::Result<usize>> {
        self.calls += 1;
        if self.calls % 7 == 3 {
            cx.waker().wake_by_ref();
            return std::task::Poll::Pending;
        }
        let n = buf.len().min(1 + (self.calls as usize * 37) % 4000);
        self.data.extend_from_slice(&buf[..n]);
        std::task::Poll::Ready(Ok(n))
    }
    fn poll_flush(self: std::pin::Pin<&mut Self>, _cx: &mut std::task::Context<'_>) -> std::task::Poll<std::io::Result<()>> {
        std::task::Poll::Ready(Ok(()))
    }
    fn poll_shutdown(self: std::pin::Pin<&mut Self>, _cx: &mut std::task::Context<'_>) -> std::task::Poll<std::io::Result<()>> {
        std::task::Poll::Ready(Ok(()))
    }
}

/// Same, but the archive is written through a buffering writer handed over BY VALUE
/// (`BufWriter<tokio::fs::File>`): whatever create_archive does not flush is lost.
pub async fn lib_compress_to_file(source: Arc<Vec<u8>>, spec: &LibCompressSpec, path: &std::path::Path) -> Result<(), String> {
    let opts = bitar::api::compress::CreateArchiveOptions {
        chunker_config: gen::to_bitar_config(&spec.cfg),
        num_chunk_buffers: spec.buffered,
        chunk_hash_length: spec.hash_len,
        temporary_file_override: None,
        compression: spec.comp.to_bitar(),
        metadata: spec.metadata.iter().cloned().collect::<BTreeMap<_, _>>(),
    };
    let input = FragSource::new(source, spec.frag.clone(), spec.pend.clone());
    let file = tokio::fs::File::create(path).await.map_err(|e| format!("create: {}", e))?;
    let out = tokio::io::BufWriter::new(file);
    bitar::api::compress::create_archive(input, out, &opts)
        .await
        .map_err(|e| format!("create_archive: {:?}", e))?;
    Ok(())
}

/// Values reported by the reader's accessors.
#[derive(Clone, Debug, PartialEq, Eq)]
pub struct Accessors {
    pub total_chunks: usize,
    pub unique_chunks: usize,
    pub compressed_size: u64,
    pub chunk_data_offset: u64,
    pub total_source_size: u64,
    pub source_checksum: Vec<u8>,
    pub header_checksum: Vec<u8>,
    pub header_size: usize,
    pub hash_length: usize,
    pub compression: Option<String>,
    pub version: String,
    pub metadata: Vec<(String, Vec<u8>)>,
    pub chunker: String,
    pub descriptors: Vec<(Vec<u8>, usize, u64, u32)>,
}

pub fn accessors<R>(a: &Archive<R>) -> Accessors {
    use bitar::chunker::Config;
    let chunker = match a.chunker_config() {
        Config::FixedSize(n) => format!("fixed({})", n),
        Config::RollSum(f) => format!(
            "rollsum(w={},min={},max={},bits={})",
            f.window_size,
            f.min_chunk_size,
            f.max_chunk_size,
            f.filter_bits.bits()
        ),
        Config::BuzHash(f) => format!(
            "buzhash(w={},min={},max={},bits={})",
            f.window_size,
            f.min_chunk_size,
            f.max_chunk_size,
            f.filter_bits.bits()
        ),
    };
    Accessors {
        total_chunks: a.total_chunks(),
        unique_chunks: a.unique_chunks(),
        compressed_size: a.compressed_size(),
        chunk_data_offset: a.chunk_data_offset(),
        total_source_size: a.total_source_size(),
        source_checksum: a.source_checksum().to_vec(),
        header_checksum: a.header_checksum().to_vec(),
        header_size: a.header_size(),
        hash_length: a.chunk_hash_length(),
        compression: a.chunk_compression().map(|c| format!("{}", c)),
        version: a.built_with_version().to_string(),
        metadata: a.metadata_iter().map(|(k, v)| (k.to_string(), v.to_vec())).collect(),
        chunker,
        descriptors: a
            .chunk_descriptors()
            .iter()
            .map(|d| (d.checksum.to_vec(), d.archive_size, d.archive_offset, d.source_size))
            .collect(),
    }
}

/// Clone through the library: fetch every chunk still missing, decompress, verify,
/// feed. `seeds` are chunked with the archive's chunker first (as local-cloner does).
pub async fn clone_with<R>(
    reader: R,
    seeds: &[Arc<Vec<u8>>],
    buffered: usize,
    out: MemFile,
    in_place: bool,
) -> Result<(MemFile, Accessors), String>
where
    R: ArchiveReader,
    R::Error: std::fmt::Debug,
{
    let mut archive = Archive::try_init(reader)
        .await
        .map_err(|e| format!("try_init: {:?}", e))?;
    let acc = accessors(&archive);
    let prior_index = if in_place {
        // Scan the prior content of the output with the archive's chunker (as the CLI and
        // bitar's in-place-cloner example do).
        let mut index = bitar::ChunkIndex::new_empty(archive.chunk_hash_length());
        let src = FragSource::new(Arc::new(out.data.clone()), FragPlan::Random { seed: 11, max: 3000 }, PendPlan::Every(7));
        let mut chunker = archive.chunker_config().new_chunker(src);
        while let Some(r) = chunker.next().await {
            let (offset, chunk) = r.map_err(|e| format!("output chunker: {}", e))?;
            let (hash, chunk) = chunk.verify().into_parts();
            index.add_chunk(hash, chunk.len(), &[offset]);
        }
        Some(index)
    } else {
        None
    };
    let mut output = CloneOutput::new(out, archive.build_source_index());
    if let Some(index) = prior_index {
        output
            .reorder_in_place(index)
            .await
            .map_err(|e| format!("reorder_in_place: {}", e))?;
    }
    for seed in seeds {
        let src = FragSource::new(seed.clone(), FragPlan::Random { seed: 5, max: 4096 }, PendPlan::Every(5));
        let mut chunker = archive.chunker_config().new_chunker(src);
        while let Some(r) = chunker.next().await {
            let (_, chunk) = r.map_err(|e| format!("seed chunker: {}", e))?;
            let verified = chunk.verify();
            output.feed(&verified).await.map_err(|e| format!("feed seed: {}", e))?;
        }
    }
    {
        let mut stream = archive
            .chunk_stream(output.chunks())
            .map(|r| async {
                let compressed = r.map_err(|e| format!("read: {:?}", e))?;
                tokio::task::spawn_blocking(move || {
                    let c = compressed.decompress().map_err(|e| format!("decompress: {:?}", e))?;
                    c.verify().map_err(|e| format!("verify: {}", e))
                })
                .await
                .map_err(|e| format!("join: {}", e))?
            })
            .buffered(buffered.max(1));
        while let Some(r) = stream.next().await {
            let v = r?;
            output.feed(&v).await.map_err(|e| format!("feed: {}", e))?;
        }
    }
    if !output.is_empty() {
        return Err(format!("{} chunks still missing after clone", output.len()));
    }
    let mut file = output.into_inner();
    let size = acc.total_source_size as usize;
    file.data.resize(size, 0);
    Ok((file, acc))
}

pub async fn lib_clone_io(
    archive: Arc<Vec<u8>>,
    frag: FragPlan,
    pend: PendPlan,
    seeds: &[Arc<Vec<u8>>],
    buffered: usize,
) -> Result<(MemFile, Accessors), String> {
    let reader = IoReader::new(FragSource::new(archive, frag, pend));
    clone_with(reader, seeds, buffered, MemFile::new(Vec::new()), false).await
}

pub fn http_reader(url: &str, retries: u32) -> Result<HttpReader, String> {
    let client = reqwest::Client::builder()
        .no_proxy()
        .build()
        .map_err(|e| format!("client: {}", e))?;
    // How the request was configured (a generous per-request timeout, a custom header) must
    // not change how ranges are requested; varied by the URL's port so that runs differ.
    let variant = url.bytes().fold(0u32, |a, b| a.wrapping_mul(31).wrapping_add(b as u32)) % 3;
    let mut req = client.get(url);
    if variant == 1 {
        req = req.timeout(std::time::Duration::from_secs(600));
    }
    if variant == 2 {
        req = req.header("X-Verif", "1");
    }
    Ok(HttpReader::from_request(req)
        .retries(retries)
        .retry_delay(std::time::Duration::from_millis(0)))
}

pub async fn lib_clone_http(url: &str, retries: u32, buffered: usize) -> Result<(MemFile, Accessors), String> {
    let client = reqwest::Client::builder()
        .no_proxy()
        .build()
        .map_err(|e| format!("client: {}", e))?;
    let reader = HttpReader::from_request(client.get(url))
        .retries(retries)
        .retry_delay(std::time::Duration::from_millis(0));
    clone_with(reader, &[], buffered, MemFile::new(Vec::new()), false).await
}
