//! Running the real `bita` binary as a child under the LD_PRELOAD shim, with
//! explicit environment, resource limits and a watchdog; parsing the shim log.
use crate::util::Rng;
use std::io::{Read, Write};
use std::os::unix::process::CommandExt;
use std::path::{Path, PathBuf};
use std::process::{Command, Stdio};
use std::time::{Duration, Instant};

#[derive(Clone, Copy, Debug, PartialEq, Eq)]
pub enum Exit {
    Code(i32),
    Signal(i32),
    /// Watchdog fired; the verdict of such a run is inconclusive.
    Timeout,
}

impl Exit {
    pub fn ok(&self) -> bool {
        *self == Exit::Code(0)
    }
    pub fn describe(&self) -> String {
        match self {
            Exit::Code(c) => format!("exit {}", c),
            Exit::Signal(s) => format!("signal {}", s),
            Exit::Timeout => "watchdog timeout".into(),
        }
    }
    /// Killed by the CPU-time rlimit the harness itself imposed (SIGXCPU, or SIGKILL at the
    /// hard limit): for workloads on VALID input this says the case was too expensive for
    /// its budget, not that the program is wrong — inconclusive. (C15 uses the limit as its
    /// oracle for hostile input and does not call this.)
    pub fn hit_cpu_limit(&self) -> bool {
        matches!(self, Exit::Signal(s) if *s == libc::SIGXCPU || *s == libc::SIGKILL)
    }
    /// Panic (101), abort or any other signal.
    pub fn crashed(&self) -> bool {
        matches!(self, Exit::Code(101) | Exit::Signal(_))
    }
}

pub const K_OPEN: u32 = 1;
pub const K_WRITE: u32 = 2;
pub const K_PWRITE: u32 = 3;
pub const K_LSEEK: u32 = 4;
pub const K_FTRUNCATE: u32 = 5;
pub const K_UNLINK: u32 = 6;
pub const K_RENAME: u32 = 7;
pub const K_CLOSE: u32 = 8;
pub const K_READ: u32 = 9;
pub const K_COPY: u32 = 10;
pub const K_FSYNC: u32 = 11;
pub const K_FAULT: u32 = 12;
pub const K_TRUNCATE: u32 = 13;
pub const K_PREAD: u32 = 14;

#[derive(Clone, Debug)]
pub struct Rec {
    pub kind: u32,
    pub seq0: u64,
    pub seq1: u64,
    pub tid: u32,
    pub fd: i32,
    pub widx: i32,
    pub off: i64,
    pub len: u64,
    pub ret: i64,
    pub err: i32,
    pub aux: i32,
    pub data: Vec<u8>,
}

pub fn parse_shim_log(bytes: &[u8]) -> Result<Vec<Rec>, String> {
    const HS: usize = 4 + 4 + 8 + 8 + 4 + 4 + 4 + 8 + 8 + 8 + 4 + 4 + 4;
    let mut out = Vec::new();
    let mut o = 0usize;
    let rd32 = |b: &[u8], o: usize| u32::from_le_bytes(b[o..o + 4].try_into().unwrap());
    let rd64 = |b: &[u8], o: usize| u64::from_le_bytes(b[o..o + 8].try_into().unwrap());
    while o < bytes.len() {
        if o + HS > bytes.len() {
            // A record cut by _exit in another thread: tolerate a torn tail.
            break;
        }
        if rd32(bytes, o) != 0x494f_4d4e {
            return Err(format!("bad magic at {}", o));
        }
        let kind = rd32(bytes, o + 4);
        let seq0 = rd64(bytes, o + 8);
        let seq1 = rd64(bytes, o + 16);
        let tid = rd32(bytes, o + 24);
        let fd = rd32(bytes, o + 28) as i32;
        let widx = rd32(bytes, o + 32) as i32;
        let off = rd64(bytes, o + 36) as i64;
        let len = rd64(bytes, o + 44);
        let ret = rd64(bytes, o + 52) as i64;
        let err = rd32(bytes, o + 60) as i32;
        let aux = rd32(bytes, o + 64) as i32;
        let dl = rd32(bytes, o + 68) as usize;
        if o + HS + dl > bytes.len() {
            break;
        }
        let data = bytes[o + HS..o + HS + dl].to_vec();
        o += HS + dl;
        out.push(Rec {
            kind,
            seq0,
            seq1,
            tid,
            fd,
            widx,
            off,
            len,
            ret,
            err,
            aux,
            data,
        });
    }
    Ok(out)
}

/// A data write that reached watched path `widx`: (offset, bytes accepted).
pub fn writes_to(recs: &[Rec], widx: i32) -> Vec<(u64, Vec<u8>)> {
    recs.iter()
        .filter(|r| r.widx == widx && (r.kind == K_WRITE || r.kind == K_PWRITE) && r.ret > 0)
        .map(|r| (r.off as u64, r.data.clone()))
        .collect()
}

#[derive(Clone, Debug)]
pub struct HookEvent {
    pub seq: u64,
    pub begin: bool,
    pub site: String,
    pub key: u64,
    pub thread: String,
}

pub fn parse_hook_log(s: &str) -> Vec<HookEvent> {
    s.lines()
        .filter_map(|l| {
            let mut it = l.splitn(5, ' ');
            let seq = it.next()?.parse().ok()?;
            let kind = it.next()?;
            let site = it.next()?.to_string();
            let key = u64::from_str_radix(it.next()?, 16).ok()?;
            let thread = it.next().unwrap_or("").to_string();
            Some(HookEvent {
                seq,
                begin: kind == "B",
                site,
                key,
                thread,
            })
        })
        .collect()
}

#[derive(Clone, Copy, Debug, PartialEq, Eq)]
pub enum Bin {
    Dev,
    Release,
    /// Release profile built with -Zsanitizer=address (see checks/asan.rs).
    Asan,
}

#[derive(Clone, Debug)]
pub struct Run {
    pub bin: Bin,
    pub args: Vec<String>,
    /// Replaces the LAST argument by these raw bytes (a path that is not valid UTF-8).
    pub raw_last_arg: Option<std::ffi::OsString>,
    /// None: stdin is /dev/null. Some(bytes, piece_seed): fed through a pipe; piece_seed
    /// 0 writes everything at once, otherwise random piece sizes with small pauses.
    pub stdin: Option<(Vec<u8>, u64)>,
    pub watch: Vec<PathBuf>,
    pub fault: Option<String>,
    pub trunc_fault: Option<String>,
    /// IOMON_READ_FAULT: "<widx>,<k>,<errno>".
    pub read_fault: Option<String>,
    /// IOMON_NS_FAULT: "<widx>,<unlink|open>,<errno>[,<nth>]".
    pub ns_fault: Option<String>,
    pub delays: Vec<String>,
    pub log_reads: bool,
    pub hook_log: bool,
    pub hook_delay: Option<String>,
    pub workers: Option<usize>,
    /// Pin the process to this one CPU (what a single-core target or a constrained
    /// container looks like to num_cpus: default pipeline widths become 1).
    pub one_cpu: Option<usize>,
    pub blockdev: Option<PathBuf>,
    /// Estimated peak memory in MB charged to the memory gate (None: derived from the
    /// command line, see `compress_weight_mb`).
    pub mem_weight_mb: Option<u64>,
    pub rlimit_cpu_s: Option<u64>,
    pub rlimit_as: Option<u64>,
    pub rlimit_fsize: Option<u64>,
    pub timeout: Duration,
    pub dir: PathBuf,
    pub tag: String,
    pub extra_env: Vec<(String, String)>,
    pub use_shim: bool,
    /// Prefix command (e.g. strace ... or valgrind ...); the bita binary and args follow.
    pub wrapper: Vec<String>,
}

impl Run {
    /// Rewrite every argument that is a path below the run's working directory as a path
    /// relative to it (`style` 0: "name", 1: "./name"): how a path is spelled must not matter.
    pub fn relativize_args(&mut self, style: u8) {
        let prefix = format!("{}/", self.dir.display());
        for a in self.args.iter_mut() {
            if let Some(rest) = a.strip_prefix(&prefix) {
                if !rest.is_empty() {
                    *a = if style == 1 { format!("./{}", rest) } else { rest.to_string() };
                }
            }
        }
    }
    pub fn new(dir: &Path, tag: &str, args: Vec<String>) -> Self {
        Run {
            bin: Bin::Dev,
            args,
            raw_last_arg: None,
            stdin: None,
            watch: vec![],
            fault: None,
            trunc_fault: None,
            ns_fault: None,
            read_fault: None,
            delays: vec![],
            log_reads: false,
            hook_log: false,
            hook_delay: None,
            workers: None,
            one_cpu: None,
            blockdev: None,
            mem_weight_mb: None,
            rlimit_cpu_s: Some(120),
            rlimit_as: None,
            rlimit_fsize: None,
            timeout: Duration::from_secs(120),
            dir: dir.to_path_buf(),
            tag: tag.to_string(),
            extra_env: vec![],
            use_shim: true,
            wrapper: vec![],
        }
    }
}

pub struct Outcome {
    pub exit: Exit,
    pub stdout: Vec<u8>,
    pub stderr: Vec<u8>,
    pub shim: Vec<Rec>,
    pub shim_ok: bool,
    pub hooks: Vec<HookEvent>,
    pub maxrss_kb: i64,
    pub cpu_ms: u64,
    pub wall: Duration,
}

impl Outcome {
    /// The watchdog fired although the process had hardly used any CPU: it was waiting for
    /// something that never came (a lost wake-up, a deadlock), not working. Wall-clock alone
    /// is never a verdict here; "stopped after >= 20 s having used < 3 s of CPU" is what
    /// separates a process that is stuck from one that is slow on a loaded machine.
    pub fn idle_hang(&self) -> bool {
        self.exit == Exit::Timeout && self.wall >= Duration::from_secs(20) && self.cpu_ms < 3000
    }
    pub fn text(&self) -> String {
        let mut s = String::from_utf8_lossy(&self.stdout).to_string();
        s.push_str(&String::from_utf8_lossy(&self.stderr));
        s
    }
    pub fn tail(&self) -> String {
        let t = self.text();
        let n = t.len();
        let mut start = n.saturating_sub(600);
        while !t.is_char_boundary(start) {
            start += 1;
        }
        t[start..].to_string()
    }
}

pub fn bita_bin(bin: Bin) -> PathBuf {
    match bin {
        Bin::Dev => std::env::var_os("BITA_BIN")
            .map(PathBuf::from)
            .unwrap_or_else(|| crate::util::verif_root().join(".build/cli/debug/bita")),
        Bin::Release => std::env::var_os("BITA_BIN_RELEASE")
            .map(PathBuf::from)
            .unwrap_or_else(|| crate::util::verif_root().join(".build/cli/release/bita")),
        Bin::Asan => std::env::var_os("BITA_BIN_ASAN")
            .map(PathBuf::from)
            .unwrap_or_else(|| crate::util::verif_root().join(".build/asan/x86_64-unknown-linux-gnu/release/bita")),
    }
}

pub fn shim_path() -> PathBuf {
    std::env::var_os("IOMON_SO")
        .map(PathBuf::from)
        .unwrap_or_else(|| crate::util::verif_root().join(".build/iomon.so"))
}

// ---------------------------------------------------------------------------------------
// Memory gate. `bita compress` keeps one encoder context per in-flight chunk, and zstd's
// contexts at the highest levels are huge (measured here: level 19 ~100 MB, 20 ~200 MB,
// 21 ~400 MB, 22 ~700-800 MB per context; the default pipeline is 2 x cores wide, so one
// default-width zstd-22 run peaks at 16-20 GB). The harness runs cases on all cores; two
// or three such runs at once push a 62 GB machine without swap into page reclaim, the
// children then burn their whole CPU-time rlimit in the kernel and die of SIGXCPU -- a
// limit of the harness, not a behaviour of the program. Every child is therefore charged an
// estimate of its peak memory against a budget (40 % of MemTotal, at most half of
// MemAvailable when the check starts) before it is started, in
// FIFO order so that a heavy run cannot starve; nothing about the child itself changes.
struct Gate {
    in_flight_mb: u64,
    next_ticket: u64,
    serving: u64,
}
static GATE: std::sync::Mutex<Gate> = std::sync::Mutex::new(Gate { in_flight_mb: 0, next_ticket: 0, serving: 0 });
static GATE_CV: std::sync::Condvar = std::sync::Condvar::new();

pub fn mem_budget_mb() -> u64 {
    static B: std::sync::OnceLock<u64> = std::sync::OnceLock::new();
    *B.get_or_init(|| {
        // VERIF_MEM_BUDGET_MB overrides (a very large value switches the gate off)
        if let Some(v) = std::env::var("VERIF_MEM_BUDGET_MB").ok().and_then(|v| v.parse::<u64>().ok()) {
            return v.max(1);
        }
        let info = std::fs::read_to_string("/proc/meminfo").unwrap_or_default();
        let field = |name: &str| -> Option<u64> {
            info.lines()
                .find(|l| l.starts_with(name))
                .and_then(|l| l.split_whitespace().nth(1).and_then(|v| v.parse::<u64>().ok()))
                .map(|kb| kb / 1024)
        };
        let total = field("MemTotal:").unwrap_or(8 * 1024);
        let avail = field("MemAvailable:").unwrap_or(total);
        // 40 % of the machine, and never more than half of what is free right now
        (total * 2 / 5).min(avail / 2).max(1024)
    })
}

pub struct MemGuard(u64);

impl Drop for MemGuard {
    fn drop(&mut self) {
        if self.0 > 0 {
            let mut g = GATE.lock().unwrap_or_else(|e| e.into_inner());
            g.in_flight_mb = g.in_flight_mb.saturating_sub(self.0);
            GATE_CV.notify_all();
        }
    }
}

/// Wait until `weight_mb` fits into the budget (a weight above the whole budget runs alone).
pub fn mem_gate(weight_mb: u64) -> MemGuard {
    if weight_mb == 0 {
        return MemGuard(0);
    }
    let budget = mem_budget_mb();
    let w = weight_mb.min(budget);
    let mut g = GATE.lock().unwrap_or_else(|e| e.into_inner());
    let ticket = g.next_ticket;
    g.next_ticket += 1;
    let t0 = Instant::now();
    while !(g.serving == ticket && g.in_flight_mb + w <= budget) {
        g = GATE_CV.wait(g).unwrap_or_else(|e| e.into_inner());
    }
    if std::env::var_os("VERIF_GATE_DEBUG").is_some() && (w >= 1000 || t0.elapsed() > Duration::from_millis(200)) {
        eprintln!("mem-gate: weight {} MB admitted after {:.1?} with {} MB in flight (budget {} MB)", w, t0.elapsed(), g.in_flight_mb, budget);
    }
    g.serving += 1;
    g.in_flight_mb += w;
    GATE_CV.notify_all();
    MemGuard(w)
}

/// Measured peak memory (MB, rounded up) of one encoder context.
pub fn codec_ctx_mb(codec: &str, level: u64) -> u64 {
    match (codec, level) {
        ("zstd", 22..) => 800,
        ("zstd", 21) => 400,
        ("zstd", 20) => 200,
        ("zstd", 16..=19) => 110,
        ("zstd", _) => 40,
        ("lzma", _) => 25,
        _ => 8,
    }
}

/// Estimated peak memory (MB) of a `bita compress` command line; 0 for everything else.
pub fn compress_weight_mb(args: &[String], asan: bool, one_cpu: bool) -> u64 {
    if args.first().map(|a| a != "compress").unwrap_or(true) {
        return 0;
    }
    let val = |name: &str| -> Option<&str> {
        args.iter().position(|a| a == name).and_then(|i| args.get(i + 1)).map(|v| v.as_str())
    };
    let codec = val("--compression").unwrap_or("brotli").to_ascii_lowercase();
    let level = val("--compression-level").and_then(|v| v.parse::<u64>().ok()).unwrap_or(6);
    let per_ctx = codec_ctx_mb(&codec, level);
    let default_width = if one_cpu { 1 } else { 2 * crate::util::ncpu() as u64 };
    let width = val("--buffered-chunks").and_then(|v| v.parse::<u64>().ok()).unwrap_or(default_width).clamp(1, default_width.max(1));
    let w = per_ctx * width + 30;
    if asan {
        w * 5 / 4 + 100
    } else {
        w
    }
}

pub fn run(r: &Run) -> Outcome {
    let shim_log = r.dir.join(format!("{}.shim", r.tag));
    let hook_log = r.dir.join(format!("{}.hooks", r.tag));
    let _ = std::fs::remove_file(&shim_log);
    let _ = std::fs::remove_file(&hook_log);
    let exe = bita_bin(r.bin);
    let mut cmd = if r.wrapper.is_empty() {
        Command::new(&exe)
    } else {
        let mut c = Command::new(&r.wrapper[0]);
        c.args(&r.wrapper[1..]);
        c.arg(&exe);
        c
    };
    match &r.raw_last_arg {
        Some(raw) if !r.args.is_empty() => {
            cmd.args(&r.args[..r.args.len() - 1]);
            cmd.arg(raw);
        }
        _ => {
            cmd.args(&r.args);
        }
    }
    cmd.env_clear();
    cmd.env("PATH", "/usr/bin:/bin");
    cmd.env("RUST_BACKTRACE", "0");
    cmd.env("HOME", &r.dir);
    cmd.env("no_proxy", "*");
    cmd.env("NO_PROXY", "*");
    if r.use_shim {
        let so = shim_path();
        if r.wrapper.is_empty() {
            cmd.env("LD_PRELOAD", &so);
        } else {
            // Wrapper tools pass the variable on to the traced program only.
            cmd.env("IOMON_PRELOAD_FOR_CHILD", &so);
            cmd.env("LD_PRELOAD", &so);
        }
        cmd.env("IOMON_LOG", &shim_log);
        if !r.watch.is_empty() {
            let w: Vec<String> = r.watch.iter().map(|p| p.display().to_string()).collect();
            cmd.env("IOMON_WATCH", w.join(":"));
        }
        if let Some(f) = &r.fault {
            cmd.env("IOMON_FAULT", f);
        }
        if let Some(f) = &r.read_fault {
            cmd.env("IOMON_READ_FAULT", f);
        }
        if let Some(f) = &r.ns_fault {
            cmd.env("IOMON_NS_FAULT", f);
        }
        if let Some(f) = &r.trunc_fault {
            cmd.env("IOMON_TRUNC_FAULT", f);
        }
        if !r.delays.is_empty() {
            cmd.env("IOMON_DELAY", r.delays.join(";"));
        }
        if r.log_reads {
            cmd.env("IOMON_LOGREADS", "1");
        }
    }
    if r.hook_log {
        cmd.env("BITA_VERIF_LOG", &hook_log);
    }
    if let Some(d) = &r.hook_delay {
        cmd.env("BITA_VERIF_DELAY", d);
    }
    if let Some(w) = r.workers {
        cmd.env("TOKIO_WORKER_THREADS", w.to_string());
    }
    if let Some(b) = &r.blockdev {
        cmd.env("BITA_VERIF_BLOCKDEV", b);
    }
    if r.rlimit_as.is_some() {
        // glibc reserves 64 MiB of address space per malloc arena (8 x cores arenas); under an
        // address-space limit that alone exhausts the limit in a heavily threaded process and
        // shows up as a bogus "memory allocation failed". Keep the arena count small.
        cmd.env("MALLOC_ARENA_MAX", "2");
    }
    for (k, v) in &r.extra_env {
        cmd.env(k, v);
    }
    cmd.current_dir(&r.dir);
    cmd.stdin(if r.stdin.is_some() {
        Stdio::piped()
    } else {
        Stdio::null()
    });
    cmd.stdout(Stdio::piped());
    cmd.stderr(Stdio::piped());
    let (cpu, asz, fsz) = (r.rlimit_cpu_s, r.rlimit_as, r.rlimit_fsize);
    let one_cpu = r.one_cpu;
    unsafe {
        cmd.pre_exec(move || {
            if let Some(c) = one_cpu {
                let mut set: libc::cpu_set_t = std::mem::zeroed();
                libc::CPU_ZERO(&mut set);
                libc::CPU_SET(c % (libc::sysconf(libc::_SC_NPROCESSORS_ONLN).max(1) as usize), &mut set);
                libc::sched_setaffinity(0, std::mem::size_of::<libc::cpu_set_t>(), &set);
            }
            let set = |res, v: u64| {
                let lim = libc::rlimit {
                    rlim_cur: v,
                    rlim_max: v,
                };
                libc::setrlimit(res, &lim);
            };
            if let Some(c) = cpu {
                let lim = libc::rlimit { rlim_cur: c, rlim_max: c + 2 };
                libc::setrlimit(libc::RLIMIT_CPU, &lim);
            }
            if let Some(a) = asz {
                set(libc::RLIMIT_AS, a);
            }
            if let Some(f) = fsz {
                set(libc::RLIMIT_FSIZE, f);
                libc::signal(libc::SIGXFSZ, libc::SIG_IGN);
            }
            set(libc::RLIMIT_CORE, 0);
            Ok(())
        });
    }
    let _mem = mem_gate(r.mem_weight_mb.unwrap_or_else(|| compress_weight_mb(&r.args, r.bin == Bin::Asan, r.one_cpu.is_some())));
    let start = Instant::now();
    let mut child = match cmd.spawn() {
        Ok(c) => c,
        Err(e) => {
            return Outcome {
                exit: Exit::Timeout,
                stdout: vec![],
                stderr: format!("spawn failed: {}", e).into_bytes(),
                shim: vec![],
                shim_ok: false,
                hooks: vec![],
                maxrss_kb: 0,
                cpu_ms: 0,
                wall: start.elapsed(),
            }
        }
    };
    let pid = child.id() as i32;
    let stdin_thread = r.stdin.clone().map(|(data, piece_seed)| {
        let mut pipe = child.stdin.take().unwrap();
        std::thread::spawn(move || {
            if piece_seed == 0 {
                let _ = pipe.write_all(&data);
            } else {
                let mut rng = Rng::new(piece_seed);
                let mut o = 0;
                // A third of the fragmented deliveries start with a tiny first piece (1..15
                // bytes, less than a small hash window) that the reader gets on its own: the
                // writer pauses before it goes on.
                if piece_seed % 3 == 1 && !data.is_empty() {
                    let n = rng.urange(1, 15).min(data.len());
                    if pipe.write_all(&data[..n]).is_ok() {
                        let _ = pipe.flush();
                        o = n;
                        std::thread::sleep(Duration::from_millis(25));
                    }
                }
                while o < data.len() {
                    let max = match rng.below(4) {
                        0 => 7,
                        1 => 300,
                        2 => 5000,
                        _ => 70_000,
                    };
                    let n = rng.urange(1, max).min(data.len() - o);
                    if pipe.write_all(&data[o..o + n]).is_err() {
                        break;
                    }
                    let _ = pipe.flush();
                    o += n;
                    if rng.chance(1, 3) {
                        std::thread::sleep(Duration::from_micros(rng.range(1, 300)));
                    } else {
                        std::thread::yield_now();
                    }
                }
            }
            drop(pipe);
        })
    });
    let mut so = child.stdout.take().unwrap();
    let mut se = child.stderr.take().unwrap();
    let t_out = std::thread::spawn(move || {
        let mut v = Vec::new();
        let _ = so.read_to_end(&mut v);
        v
    });
    let t_err = std::thread::spawn(move || {
        let mut v = Vec::new();
        let _ = se.read_to_end(&mut v);
        v
    });
    let mut status: libc::c_int = 0;
    let mut ru: libc::rusage = unsafe { std::mem::zeroed() };
    let mut timed_out = false;
    let mut sleep_us = 200u64;
    loop {
        let rc = unsafe { libc::wait4(pid, &mut status, libc::WNOHANG, &mut ru) };
        if rc == pid {
            break;
        }
        if rc < 0 {
            break;
        }
        if start.elapsed() > r.timeout && !timed_out {
            timed_out = true;
            unsafe {
                libc::kill(pid, libc::SIGKILL);
            }
        }
        std::thread::sleep(Duration::from_micros(sleep_us));
        sleep_us = (sleep_us * 3 / 2).min(5000);
    }
    // The Child must not be waited again by std (pid already reaped).
    std::mem::forget(child);
    if let Some(t) = stdin_thread {
        let _ = t.join();
    }
    let stdout = t_out.join().unwrap_or_default();
    let stderr = t_err.join().unwrap_or_default();
    let exit = if timed_out {
        Exit::Timeout
    } else if libc::WIFEXITED(status) {
        Exit::Code(libc::WEXITSTATUS(status))
    } else if libc::WIFSIGNALED(status) {
        Exit::Signal(libc::WTERMSIG(status))
    } else {
        Exit::Code(-1)
    };
    let (shim, shim_ok) = match std::fs::read(&shim_log) {
        Ok(b) => match parse_shim_log(&b) {
            Ok(v) => (v, true),
            Err(_) => (vec![], false),
        },
        Err(_) => (vec![], !r.use_shim),
    };
    let hooks = std::fs::read_to_string(&hook_log)
        .map(|s| parse_hook_log(&s))
        .unwrap_or_default();
    let cpu_ms = (ru.ru_utime.tv_sec as u64 + ru.ru_stime.tv_sec as u64) * 1000
        + (ru.ru_utime.tv_usec as u64 + ru.ru_stime.tv_usec as u64) / 1000;
    Outcome {
        exit,
        stdout,
        stderr,
        shim,
        shim_ok,
        hooks,
        maxrss_kb: ru.ru_maxrss,
        cpu_ms,
        wall: start.elapsed(),
    }
}

pub fn s(x: &str) -> String {
    x.to_string()
}

pub fn p(x: &Path) -> String {
    x.display().to_string()
}

#[derive(Clone, Debug)]
pub struct StraceCall {
    pub pid: u32,
    pub name: String,
    /// Everything between the outer parentheses (unfinished + resumed parts joined).
    pub args: String,
    /// Text after " = " (return value and errno text).
    pub ret: String,
}

impl StraceCall {
    pub fn ret_val(&self) -> Option<i64> {
        // "5", "5</path>", "-1 ENOENT (...)", "0x7f.." (not numeric: None)
        let t = self.ret.trim();
        let end = t
            .char_indices()
            .find(|(i, c)| !(c.is_ascii_digit() || (*i == 0 && *c == '-')))
            .map(|(i, _)| i)
            .unwrap_or(t.len());
        t[..end].parse().ok()
    }
}

/// Split "args)    = ret" at the closing parenthesis of the call (strace pads with
/// spaces before the equals sign).
fn split_ret(s: &str) -> Option<(&str, &str)> {
    let i = s.rfind(" = ")?;
    let before = s[..i].trim_end();
    let before = before.strip_suffix(')')?;
    Some((before, &s[i + 3..]))
}

/// Parse `strace -f -o file` output: joins `<unfinished ...>` / `<... x resumed>` pairs
/// per pid. Lines that are not syscalls (signals, exits) are skipped.
pub fn parse_strace(text: &str) -> Vec<StraceCall> {
    let mut pending: std::collections::HashMap<u32, (String, String)> = std::collections::HashMap::new();
    let mut out = Vec::new();
    for line in text.lines() {
        let (pid, rest) = match line.split_once(' ') {
            Some((p, r)) if p.chars().all(|c| c.is_ascii_digit()) && !p.is_empty() => (p.parse::<u32>().unwrap_or(0), r.trim_start()),
            _ => (0, line),
        };
        if rest.starts_with("<... ") {
            // "<... write resumed>, ...) = 5" or "<... write resumed>) = 5"
            if let Some(idx) = rest.find(" resumed>") {
                let after = &rest[idx + " resumed>".len()..];
                if let Some((name, mut args)) = pending.remove(&pid) {
                    let (more, ret) = match split_ret(after) {
                        Some((a, r)) => (a, r.to_string()),
                        None => (after, String::new()),
                    };
                    args.push_str(more);
                    out.push(StraceCall { pid, name, args, ret });
                }
            }
            continue;
        }
        let Some(p) = rest.find('(') else { continue };
        let name = rest[..p].to_string();
        if name.is_empty() || !name.chars().all(|c| c.is_ascii_alphanumeric() || c == '_') {
            continue;
        }
        let body = &rest[p + 1..];
        if let Some(i) = body.find(" <unfinished ...>") {
            pending.insert(pid, (name, body[..i].to_string()));
            continue;
        }
        if let Some((a, r)) = split_ret(body) {
            out.push(StraceCall {
                pid,
                name,
                args: a.to_string(),
                ret: r.to_string(),
            });
        }
    }
    out
}
