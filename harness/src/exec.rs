//! Minimal executors.
use std::future::Future;
use std::pin::pin;
use std::sync::Arc;
use std::task::{Context, Poll, Wake, Waker};

struct Noop;
impl Wake for Noop {
    fn wake(self: Arc<Self>) {}
}

/// Busy-polling executor for futures over our in-memory instruments (which always
/// arrange their own wake-up before returning Pending). `max_polls` bounds the run;
/// None is returned if the future did not finish (treated as a hang by callers).
pub fn block_on_busy<F: Future>(fut: F, max_polls: u64) -> Option<F::Output> {
    let waker = Waker::from(Arc::new(Noop));
    let mut cx = Context::from_waker(&waker);
    let mut fut = pin!(fut);
    for _ in 0..max_polls {
        if let Poll::Ready(v) = fut.as_mut().poll(&mut cx) {
            return Some(v);
        }
    }
    None
}

pub fn rt_multi(workers: usize) -> tokio::runtime::Runtime {
    tokio::runtime::Builder::new_multi_thread()
        .worker_threads(workers.max(1))
        .enable_all()
        .build()
        .expect("tokio runtime")
}

pub fn rt_current() -> tokio::runtime::Runtime {
    tokio::runtime::Builder::new_current_thread()
        .enable_all()
        .build()
        .expect("tokio runtime")
}
