//! bvh — runtime-monitoring harness for oll3/bita (see /verif/DESIGN.md).
mod checks;
mod evidence;
mod exec;
mod gen;
mod httpd;
mod inst;
mod lib_drv;
mod miri;
mod proc;
mod scn;
mod refimpl;
mod util;

use evidence::Tier;

fn usage() -> ! {
    eprintln!("usage: bvh <C01..C17> <quick|thorough> | bvh replay <file>");
    std::process::exit(64);
}

fn main() {
    // Panics of the code under test are caught and judged by the monitors; keep stderr quiet.
    std::panic::set_hook(Box::new(|info| {
        let own = info.location().map(|l| l.file().starts_with("src/")).unwrap_or(false);
        if own || std::env::var_os("BVH_SHOW_PANICS").is_some() {
            eprintln!("{}", info);
        }
    }));
    let args: Vec<String> = std::env::args().collect();
    if args.len() < 3 {
        usage();
    }
    let seed: u64 = std::env::var("VERIF_SEED")
        .ok()
        .and_then(|s| s.parse().ok())
        .unwrap_or(1);
    if args[1] == "worker" {
        let code = match args[2].as_str() {
            "libcompress" => checks::ccommon::worker_libcompress(&args[3]),
            "c15lib" => checks::c15::worker_lib(&args[3]),
            "c15dump" => checks::c15::worker_dump(args[3].parse().unwrap_or(1), &args[4], &args[5]),
            _ => 64,
        };
        std::process::exit(code);
    }
    if args[1] == "replay" {
        let s = std::fs::read_to_string(&args[2]).expect("read replay file");
        let v: serde_json::Value = serde_json::from_str(&s).expect("parse replay file");
        let id = v["property"].as_str().unwrap_or("").to_string();
        let code = match id.as_str() {
            "C01" => checks::c01::replay(&v),
            "C02" => checks::c02::replay(&v),
            "C03" => checks::c03::replay(&v),
            "C04" => checks::c04::replay(&v),
            "C05" => checks::c05::replay(&v),
            "C06" => checks::c06::replay(&v),
            "C07" => checks::c07::replay(&v),
            "C08" => checks::c08::replay(&v),
            "C10" => checks::c10::replay(&v),
            "C12" => checks::c12::replay(&v),
            "C13" => checks::c13::replay(&v),
            "C14" => checks::c14::replay(&v),
            "C15" => checks::c15::replay(&v),
            "C16" => checks::c16::replay(&v),
            "C17" => checks::c17::replay(&v),
            "C09" => checks::c09::replay(&v),
            "C11" => checks::c11::replay(&v),
            _ => {
                eprintln!("no replay for {}", id);
                64
            }
        };
        std::process::exit(code);
    }
    let tier = match args[2].as_str() {
        "quick" => Tier::Quick,
        "thorough" => Tier::Thorough,
        _ => usage(),
    };
    let code = match args[1].as_str() {
        "C01" => checks::c01::run(tier, seed),
        "C02" => checks::c02::run(tier, seed),
        "C03" => checks::c03::run(tier, seed),
        "C04" => checks::c04::run(tier, seed),
        "C05" => checks::c05::run(tier, seed),
        "C06" => checks::c06::run(tier, seed),
        "C07" => checks::c07::run(tier, seed),
        "C08" => checks::c08::run(tier, seed),
        "C10" => checks::c10::run(tier, seed),
        "C12" => checks::c12::run(tier, seed),
        "C13" => checks::c13::run(tier, seed),
        "C14" => checks::c14::run(tier, seed),
        "C15" => checks::c15::run(tier, seed),
        "C16" => checks::c16::run(tier, seed),
        "C17" => checks::c17::run(tier, seed),
        "C09" => checks::c09::run(tier, seed),
        "C11" => checks::c11::run(tier, seed),
        _ => usage(),
    };
    std::process::exit(code);
}
