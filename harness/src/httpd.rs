//! Scripted HTTP/1.1 server (std::net, one thread per connection, keep-alive).
//! Logs every request (Range, bytes sent) and lets a script decide, per request,
//! how to answer: correctly, fragmented, cut, refused, or with wrong data.
use std::io::{BufRead, BufReader, Write};
use std::net::{Shutdown, TcpListener, TcpStream};
use std::sync::atomic::{AtomicU64, Ordering};
use std::sync::{Arc, Mutex};
use std::time::Duration;

#[derive(Clone, Debug)]
pub struct Req {
    /// Global 0-based request number (order of arrival).
    pub n: u64,
    pub conn: u64,
    pub method: String,
    /// Request target as sent (path and query).
    pub path: String,
    /// Inclusive byte range from the Range header, if present and well-formed.
    pub range: Option<(u64, u64)>,
    pub raw_range: Option<String>,
    pub headers: Vec<(String, String)>,
}

#[derive(Clone, Debug)]
pub enum Action {
    /// 206 with exactly the requested bytes.
    Full,
    /// Correct bytes, body written in pieces of the given sizes (cyclic), flushing
    /// and pausing in between.
    Fragmented(Vec<usize>),
    /// Correct headers (full Content-Length) but only the first k body bytes, then FIN.
    CutAfter(usize),
    /// Close the connection without any response.
    Drop,
    /// 206 without a Content-Length (the body is delimited by the close of the connection):
    /// the requested bytes, then junk without end — 16 KiB every few milliseconds until the
    /// client goes away (or 90 s have passed).
    Endless,
    /// Send these bytes as they are (not an HTTP response) and close.
    Raw(Vec<u8>),
    /// Arbitrary response: status, declared Content-Length (None = actual), body.
    Custom {
        status: u16,
        declared_len: Option<u64>,
        body: Vec<u8>,
    },
}

#[derive(Clone, Debug)]
pub struct ReqLog {
    pub req: Req,
    pub action: String,
    pub body_sent: usize,
}

pub type Script = Arc<dyn Fn(&Req, &[u8]) -> Action + Send + Sync>;

/// What one case wants served; swapped in and out of a pooled listener.
struct CaseState {
    file: Arc<Vec<u8>>,
    script: Script,
    log: Mutex<Vec<ReqLog>>,
    counter: AtomicU64,
}

/// A listener that lives for the whole process and serves whatever case currently
/// holds it. Listeners are pooled: thousands of cases per run would otherwise leave
/// thousands of listening ports behind in TIME_WAIT and exhaust the ephemeral range.
struct Core {
    port: u16,
    state: Mutex<Arc<CaseState>>,
    conns: AtomicU64,
}

static POOL: Mutex<Vec<Arc<Core>>> = Mutex::new(Vec::new());

fn idle_state() -> Arc<CaseState> {
    Arc::new(CaseState {
        file: Arc::new(Vec::new()),
        script: Arc::new(|_r, _f| Action::Drop),
        log: Mutex::new(Vec::new()),
        counter: AtomicU64::new(0),
    })
}

fn new_core() -> Arc<Core> {
    let mut listener = None;
    for attempt in 0..600 {
        match TcpListener::bind("127.0.0.1:0") {
            Ok(l) => {
                listener = Some(l);
                break;
            }
            Err(_) if attempt < 599 => std::thread::sleep(Duration::from_millis(100)),
            Err(e) => panic!("bind: {:?}", e),
        }
    }
    let listener = listener.unwrap();
    let port = listener.local_addr().unwrap().port();
    let core = Arc::new(Core {
        port,
        state: Mutex::new(idle_state()),
        conns: AtomicU64::new(0),
    });
    let c2 = core.clone();
    std::thread::spawn(move || {
        for stream in listener.incoming() {
            let Ok(stream) = stream else { continue };
            let _ = stream.set_nodelay(true);
            let conn = c2.conns.fetch_add(1, Ordering::SeqCst);
            let c3 = c2.clone();
            std::thread::spawn(move || serve_conn(stream, conn, c3));
        }
    });
    core
}

pub struct Server {
    pub port: u16,
    core: Arc<Core>,
    state: Arc<CaseState>,
}

impl Server {
    pub fn start(file: Arc<Vec<u8>>, script: Script) -> Server {
        let core = POOL.lock().unwrap().pop().unwrap_or_else(new_core);
        let state = Arc::new(CaseState {
            file,
            script,
            log: Mutex::new(Vec::new()),
            counter: AtomicU64::new(0),
        });
        *core.state.lock().unwrap() = state.clone();
        Server {
            port: core.port,
            core,
            state,
        }
    }
    pub fn url(&self) -> String {
        format!("http://127.0.0.1:{}/a.cba", self.port)
    }
    pub fn take_log(&self) -> Vec<ReqLog> {
        self.state.log.lock().unwrap().clone()
    }
    /// Shared handle on the request log (entries are appended on arrival).
    pub fn log_handle(&self) -> LogHandle {
        LogHandle(self.state.clone())
    }
}

pub struct LogHandle(Arc<CaseState>);

impl LogHandle {
    pub fn len(&self) -> usize {
        self.0.log.lock().unwrap().len()
    }
    pub fn ranges_from(&self, mark: usize) -> Vec<(u64, u64)> {
        self.0.log.lock().unwrap()[mark..].iter().filter_map(|r| r.req.range).collect()
    }
}

impl Drop for Server {
    fn drop(&mut self) {
        *self.core.state.lock().unwrap() = idle_state();
        POOL.lock().unwrap().push(self.core.clone());
    }
}

fn parse_range(v: &str) -> Option<(u64, u64)> {
    let v = v.trim();
    let rest = v.strip_prefix("bytes=")?;
    let (a, b) = rest.split_once('-')?;
    Some((a.trim().parse().ok()?, b.trim().parse().ok()?))
}

fn serve_conn(stream: TcpStream, conn: u64, core: Arc<Core>) {
    let _ = stream.set_read_timeout(Some(Duration::from_secs(20)));
    let mut reader = BufReader::new(stream.try_clone().expect("clone stream"));
    let mut out = stream;
    loop {
        // Read one request head.
        let mut lines: Vec<String> = Vec::new();
        loop {
            let mut line = String::new();
            match reader.read_line(&mut line) {
                Ok(0) => return,
                Ok(_) => {
                    let t = line.trim_end_matches(['\r', '\n']).to_string();
                    if t.is_empty() {
                        if lines.is_empty() {
                            continue;
                        }
                        break;
                    }
                    lines.push(t);
                }
                Err(_) => return,
            }
        }
        let method = lines[0].split(' ').next().unwrap_or("").to_string();
        let path = lines[0].split(' ').nth(1).unwrap_or("").to_string();
        let mut headers = Vec::new();
        let mut raw_range = None;
        for l in &lines[1..] {
            if let Some((k, v)) = l.split_once(':') {
                let k = k.trim().to_ascii_lowercase();
                let v = v.trim().to_string();
                if k == "range" {
                    raw_range = Some(v.clone());
                }
                headers.push((k, v));
            }
        }
        // The case that holds the listener *now* (a connection never outlives its case in
        // practice: the client is dropped before the server handle).
        let st: Arc<CaseState> = core.state.lock().unwrap().clone();
        let (file, script, log, counter) = (&st.file, &st.script, &st.log, &st.counter);
        let n = counter.fetch_add(1, Ordering::SeqCst);
        let req = Req {
            n,
            conn,
            method,
            path,
            range: raw_range.as_deref().and_then(parse_range),
            raw_range,
            headers,
        };
        let action = script(&req, file);
        // Log on arrival (before any byte of the response is sent) so that a client which
        // has seen the complete response is guaranteed to find its request in the log.
        let slot = {
            let mut g = log.lock().unwrap();
            g.push(ReqLog {
                req: req.clone(),
                action: String::new(),
                body_sent: 0,
            });
            g.len() - 1
        };
        let correct: Vec<u8> = match req.range {
            Some((a, b)) if a <= b && (a as usize) < file.len() => {
                let e = ((b as usize) + 1).min(file.len());
                file[a as usize..e].to_vec()
            }
            Some(_) => Vec::new(),
            None => file.to_vec(),
        };
        let mut sent = 0usize;
        let mut close = false;
        // `will_close`: the server closes the connection after this response although the
        // response itself is complete; say so, otherwise the client may already have sent
        // its next request on this connection and sees a reset it must count as a failure.
        let head = |status: u16, len: u64, req: &Req, will_close: bool| -> String {
            let reason = match status {
                200 => "OK",
                206 => "Partial Content",
                404 => "Not Found",
                416 => "Range Not Satisfiable",
                500 => "Internal Server Error",
                503 => "Service Unavailable",
                _ => "Status",
            };
            let mut h = format!("HTTP/1.1 {} {}\r\nContent-Length: {}\r\n", status, reason, len);
            if status == 206 {
                if let Some((a, b)) = req.range {
                    h.push_str(&format!("Content-Range: bytes {}-{}/*\r\n", a, b));
                }
            }
            if will_close {
                h.push_str("Connection: close\r\n");
            }
            h.push_str("Content-Type: application/octet-stream\r\n\r\n");
            h
        };
        let desc;
        match &action {
            Action::Full => {
                desc = "full".to_string();
                let status = if req.range.is_some() { 206 } else { 200 };
                let h = head(status, correct.len() as u64, &req, false);
                if out.write_all(h.as_bytes()).is_err() || out.write_all(&correct).is_err() {
                    close = true;
                } else {
                    sent = correct.len();
                }
                let _ = out.flush();
            }
            Action::Fragmented(sizes) => {
                desc = format!("fragmented{:?}", &sizes[..sizes.len().min(6)]);
                let h = head(206, correct.len() as u64, &req, false);
                let _ = out.write_all(h.as_bytes());
                let _ = out.flush();
                let mut o = 0;
                let mut i = 0;
                while o < correct.len() {
                    let n = if sizes.is_empty() { correct.len() } else { sizes[i % sizes.len()].max(1) };
                    let n = n.min(correct.len() - o);
                    if out.write_all(&correct[o..o + n]).is_err() {
                        close = true;
                        break;
                    }
                    let _ = out.flush();
                    o += n;
                    i += 1;
                    sent = o;
                    std::thread::sleep(Duration::from_micros(400));
                }
            }
            Action::CutAfter(k) => {
                desc = format!("cut_after({})", k);
                let h = head(206, correct.len() as u64, &req, true);
                let _ = out.write_all(h.as_bytes());
                let k = (*k).min(correct.len());
                let _ = out.write_all(&correct[..k]);
                let _ = out.flush();
                sent = k;
                close = true;
            }
            Action::Drop => {
                desc = "drop".to_string();
                close = true;
            }
            Action::Endless => {
                desc = "endless".to_string();
                let mut h = String::from("HTTP/1.1 206 Partial Content\r\nConnection: close\r\n");
                if let Some((a, b)) = req.range {
                    h.push_str(&format!("Content-Range: bytes {}-{}/*\r\n", a, b));
                }
                h.push_str("Content-Type: application/octet-stream\r\n\r\n");
                let _ = out.write_all(h.as_bytes());
                let _ = out.write_all(&correct);
                let _ = out.flush();
                sent = correct.len();
                let junk = vec![0x5au8; 16 << 10];
                let t0 = std::time::Instant::now();
                let _ = out.set_write_timeout(Some(Duration::from_secs(5)));
                while t0.elapsed() < Duration::from_secs(90) {
                    if out.write_all(&junk).is_err() {
                        break;
                    }
                    sent += junk.len();
                    std::thread::sleep(Duration::from_millis(3));
                }
                close = true;
            }
            Action::Raw(bytes) => {
                desc = format!("raw({})", bytes.len());
                let _ = out.write_all(bytes);
                let _ = out.flush();
                close = true;
            }
            Action::Custom { status, declared_len, body } => {
                desc = format!("custom(status={},declared={:?},body={})", status, declared_len, body.len());
                let closing = declared_len.map(|d| d != body.len() as u64).unwrap_or(false);
                let h = head(*status, declared_len.unwrap_or(body.len() as u64), &req, closing);
                let _ = out.write_all(h.as_bytes());
                let _ = out.write_all(body);
                let _ = out.flush();
                sent = body.len();
                if let Some(d) = declared_len {
                    if *d != body.len() as u64 {
                        close = true;
                    }
                }
            }
        }
        {
            let mut g = log.lock().unwrap();
            if let Some(e) = g.get_mut(slot) {
                e.action = desc;
                e.body_sent = sent;
            }
        }
        if close {
            let _ = out.shutdown(Shutdown::Both);
            return;
        }
    }
}

pub fn well_behaved() -> Script {
    Arc::new(|_r, _f| Action::Full)
}
