//! Workload generators: sources, chunker configurations, edits.
use crate::refimpl::chunker::{Algo, Cfg};
use crate::util::Rng;

#[derive(Clone, Copy, Debug, PartialEq, Eq, Hash)]
pub enum SrcClass {
    Random,
    Constant,
    LowEntropy,
    ZeroRuns,
    BlockRepetitive,
    Zeros,
    /// Image-like: padding holes of 0x00 / 0xff / 0x80 / another constant between payload
    /// segments — large level shifts within one (large) hash window.
    LevelShift,
    /// A long incompressible region (media, encrypted data) followed by a long compressible
    /// one (text), possibly repeated: compressibility changes along the stream.
    MixedEntropy,
}

/// SRC_CLASSES plus the classes only the chunker checks draw from.
pub const SRC_CLASSES_EXT: [SrcClass; 8] = [
    SrcClass::Random,
    SrcClass::Constant,
    SrcClass::LowEntropy,
    SrcClass::ZeroRuns,
    SrcClass::BlockRepetitive,
    SrcClass::Zeros,
    SrcClass::LevelShift,
    SrcClass::MixedEntropy,
];

pub const SRC_CLASSES: [SrcClass; 6] = [
    SrcClass::Random,
    SrcClass::Constant,
    SrcClass::LowEntropy,
    SrcClass::ZeroRuns,
    SrcClass::BlockRepetitive,
    SrcClass::Zeros,
];

pub fn gen_source(rng: &mut Rng, class: SrcClass, len: usize) -> Vec<u8> {
    match class {
        SrcClass::Random => rng.bytes(len),
        SrcClass::Constant => vec![rng.below(256) as u8; len],
        SrcClass::Zeros => vec![0u8; len],
        SrcClass::LowEntropy => {
            let k = rng.urange(2, 4);
            let alpha: Vec<u8> = (0..k)
                .map(|i| if i == 0 { 0 } else { rng.below(256) as u8 })
                .collect();
            (0..len).map(|_| *rng.pick(&alpha)).collect()
        }
        SrcClass::ZeroRuns => {
            let mut v = Vec::with_capacity(len);
            while v.len() < len {
                let run = rng.urange(1, 1 + len / 4 + 8);
                if rng.chance(1, 2) {
                    v.extend(std::iter::repeat(0u8).take(run));
                } else {
                    v.extend(rng.bytes(run));
                }
            }
            v.truncate(len);
            v
        }
        SrcClass::MixedEntropy => {
            let mut v = Vec::with_capacity(len);
            let words: [&[u8]; 6] = [b"the ", b"quick ", b"brown ", b"fox ", b"jumps ", b"\n"];
            let mut random_part = rng.chance(2, 3);
            while v.len() < len {
                let region = rng.urange(1 + len / 5, 2 + len / 2);
                if random_part {
                    v.extend(rng.bytes(region));
                } else {
                    let end = v.len() + region;
                    while v.len() < end {
                        let w: &[u8] = words[rng.usize_below(words.len())];
                        v.extend_from_slice(w);
                    }
                }
                random_part = !random_part;
            }
            v.truncate(len);
            v
        }
        SrcClass::LevelShift => {
            let mut v = Vec::with_capacity(len);
            while v.len() < len {
                let run = rng.urange(1 + len / 40, 64 + len / 6);
                match rng.below(6) {
                    0 => v.extend(std::iter::repeat(0u8).take(run)),
                    1 | 2 => v.extend(std::iter::repeat(0xffu8).take(run)),
                    3 => v.extend(std::iter::repeat(0x80u8).take(run)),
                    4 => {
                        let b = rng.below(256) as u8;
                        v.extend(std::iter::repeat(b).take(run))
                    }
                    _ => v.extend(rng.bytes(run)),
                }
            }
            v.truncate(len);
            v
        }
        SrcClass::BlockRepetitive => {
            let nblocks = rng.urange(2, 6);
            let blocks: Vec<Vec<u8>> = (0..nblocks)
                .map(|_| {
                    let l = rng.urange(1, 1 + len / 3 + 16);
                    rng.bytes(l)
                })
                .collect();
            let mut v = Vec::with_capacity(len);
            while v.len() < len {
                let b: &Vec<u8> = rng.pick(&blocks[..]);
                v.extend_from_slice(b);
            }
            v.truncate(len);
            v
        }
    }
}

/// Small-parameter rolling configuration: a few-KiB source gets tens of chunks.
pub fn gen_small_rolling(rng: &mut Rng, algo: Algo) -> Cfg {
    let window = *rng.pick(&[1usize, 2, 3, 4, 7, 8, 15, 16, 17, 31, 32, 33, 48, 64, 100, 255, 256]);
    let bits = rng.range(1, 8) as u32;
    let max = window + rng.urange(0, 600);
    let max = max.max(1);
    let rel = rng.below(6);
    let min = match rel {
        0 => 0,
        1 => window.saturating_sub(1).min(max),
        2 => window.min(max),
        3 => (window + 1).min(max),
        4 => rng.urange(0, max),
        _ => max, // min == max: every chunk at max
    };
    Cfg {
        algo,
        window,
        min,
        max,
        bits,
    }
}

/// A rolling configuration with a hash window of several KiB (the CLI accepts e.g.
/// `--rolling-window-size 10KiB`): sums over such a window exceed 32 bits.
pub fn gen_bigwindow_cfg(rng: &mut Rng) -> Cfg {
    let algo = if rng.chance(2, 3) { Algo::RollSum } else { Algo::BuzHash };
    let window = rng.urange(3000, 20_000);
    let bits = rng.range(9, 13) as u32;
    let max = window + rng.urange(1, 100_000);
    let min = match rng.below(4) {
        0 => 0,
        1 => window.min(max),
        2 => (window + rng.urange(1, 5000)).min(max),
        _ => rng.urange(0, max.min(30_000)),
    };
    Cfg { algo, window, min, max, bits }
}

pub fn gen_small_cfg(rng: &mut Rng) -> Cfg {
    match rng.below(5) {
        0 => Cfg::fixed(rng.urange(1, 700)),
        1 | 2 => gen_small_rolling(rng, Algo::RollSum),
        _ => gen_small_rolling(rng, Algo::BuzHash),
    }
}

/// Configuration expressible through the CLI: bits derive from --avg-chunk-size
/// (a power of two 2^(bits+1)) and min <= avg <= max must hold.
pub fn gen_cli_cfg(rng: &mut Rng, big: bool) -> Cfg {
    if rng.chance(1, 5) {
        let n = if big {
            rng.urange(1000, 300_000)
        } else {
            rng.urange(1, 3000)
        };
        return Cfg::fixed(n);
    }
    let algo = if rng.chance(1, 2) {
        Algo::RollSum
    } else {
        Algo::BuzHash
    };
    let bits = if big {
        rng.range(7, 16) as u32
    } else {
        rng.range(1, 9) as u32
    };
    let avg = 1usize << (bits + 1);
    let window = *rng.pick(&[1usize, 2, 3, 8, 16, 17, 32, 64, 100, 256]);
    let max_lo = avg.max(window);
    let max = max_lo + if rng.chance(1, 4) { 0 } else { rng.urange(0, avg * 6) };
    let min = match rng.below(5) {
        0 => 0,
        1 => window.min(avg),
        2 => (window + 1).min(avg),
        3 => avg,
        _ => rng.urange(0, avg),
    };
    Cfg {
        algo,
        window,
        min,
        max,
        bits,
    }
}

pub fn to_bitar_config(cfg: &Cfg) -> bitar::chunker::Config {
    use bitar::chunker::{Config, FilterBits, FilterConfig};
    match cfg.algo {
        Algo::Fixed => Config::FixedSize(cfg.max),
        Algo::RollSum => Config::RollSum(FilterConfig {
            filter_bits: FilterBits::from_bits(cfg.bits),
            min_chunk_size: cfg.min,
            max_chunk_size: cfg.max,
            window_size: cfg.window,
        }),
        Algo::BuzHash => Config::BuzHash(FilterConfig {
            filter_bits: FilterBits::from_bits(cfg.bits),
            min_chunk_size: cfg.min,
            max_chunk_size: cfg.max,
            window_size: cfg.window,
        }),
    }
}

/// CLI arguments selecting this chunker configuration (must be CLI-expressible).
pub fn cli_chunker_args(cfg: &Cfg) -> Vec<String> {
    match cfg.algo {
        Algo::Fixed => vec!["--fixed-size".into(), format!("{}", cfg.max)],
        _ => vec![
            "--hash-chunking".into(),
            if cfg.algo == Algo::RollSum {
                "RollSum".into()
            } else {
                "BuzHash".into()
            },
            "--avg-chunk-size".into(),
            {
                // The documented rule: the average rounds DOWN to a power of two. A third of
                // the configurations therefore ask for a size that is not one (still within
                // min..max), which must record the same filter bits.
                let avg = 1usize << (cfg.bits + 1);
                let hi = (2 * avg - 1).min(cfg.max);
                if (cfg.window + cfg.min + cfg.max) % 3 == 1 && hi > avg {
                    format!("{}", avg + (cfg.max * 7 + cfg.min) % (hi - avg + 1))
                } else {
                    format!("{}", avg)
                }
            },
            "--min-chunk-size".into(),
            format!("{}", cfg.min),
            "--max-chunk-size".into(),
            format!("{}", cfg.max),
            "--rolling-window-size".into(),
            format!("{}", cfg.window),
        ],
    }
}

#[derive(Clone, Copy, Debug, PartialEq, Eq)]
pub enum Comp {
    None,
    Brotli(u32),
    Zstd(u32),
    Lzma(u32),
}

impl Comp {
    pub fn describe(&self) -> String {
        match self {
            Comp::None => "none".into(),
            Comp::Brotli(l) => format!("brotli-{}", l),
            Comp::Zstd(l) => format!("zstd-{}", l),
            Comp::Lzma(l) => format!("lzma-{}", l),
        }
    }
    pub fn family(&self) -> &'static str {
        match self {
            Comp::None => "none",
            Comp::Brotli(_) => "brotli",
            Comp::Zstd(_) => "zstd",
            Comp::Lzma(_) => "lzma",
        }
    }
    pub fn cli_args(&self) -> Vec<String> {
        match self {
            Comp::None => vec!["--compression".into(), "none".into()],
            Comp::Brotli(l) => vec![
                "--compression".into(),
                "brotli".into(),
                "--compression-level".into(),
                l.to_string(),
            ],
            Comp::Zstd(l) => vec![
                "--compression".into(),
                "zstd".into(),
                "--compression-level".into(),
                l.to_string(),
            ],
            Comp::Lzma(l) => vec![
                "--compression".into(),
                "lzma".into(),
                "--compression-level".into(),
                l.to_string(),
            ],
        }
    }
    pub fn to_bitar(&self) -> Option<bitar::Compression> {
        match self {
            Comp::None => None,
            Comp::Brotli(l) => Some(bitar::Compression::brotli(*l).unwrap()),
            Comp::Zstd(l) => Some(bitar::Compression::zstd(*l).unwrap()),
            Comp::Lzma(l) => Some(bitar::Compression::lzma(*l).unwrap()),
        }
    }
    /// (type enum value in the dictionary, level)
    pub fn dict_values(&self) -> (u32, u32) {
        match self {
            Comp::None => (0, 0),
            Comp::Lzma(l) => (1, *l),
            Comp::Zstd(l) => (2, *l),
            Comp::Brotli(l) => (3, *l),
        }
    }
}

/// Compression choice; `cheap` avoids the slow top levels.
pub fn gen_comp(rng: &mut Rng, cheap: bool) -> Comp {
    match rng.below(8) {
        0 | 1 => Comp::None,
        2 | 3 | 4 => Comp::Brotli(if cheap {
            rng.range(1, 7) as u32
        } else {
            rng.range(1, 11) as u32
        }),
        5 | 6 => Comp::Zstd(if cheap {
            rng.range(1, 9) as u32
        } else {
            rng.range(1, 22) as u32
        }),
        _ => Comp::Lzma(if cheap {
            rng.range(1, 4) as u32
        } else {
            rng.range(1, 9) as u32
        }),
    }
}

pub fn all_comps() -> Vec<Comp> {
    let mut v = vec![Comp::None];
    v.extend((1..=11).map(Comp::Brotli));
    v.extend((1..=22).map(Comp::Zstd));
    v.extend((1..=9).map(Comp::Lzma));
    v
}

/// Derive a related byte string from `src` (used for seeds and prior outputs).
#[derive(Clone, Copy, Debug, PartialEq, Eq, Hash)]
pub enum Edit {
    Same,
    Unrelated,
    Insert,
    Delete,
    Swap,
    Duplicate,
    Truncate,
    Extend,
    Overwrite,
    Empty,
    Prefix,
    Mixed,
}

pub const EDITS: [Edit; 12] = [
    Edit::Same,
    Edit::Unrelated,
    Edit::Insert,
    Edit::Delete,
    Edit::Swap,
    Edit::Duplicate,
    Edit::Truncate,
    Edit::Extend,
    Edit::Overwrite,
    Edit::Empty,
    Edit::Prefix,
    Edit::Mixed,
];

pub fn apply_edit(rng: &mut Rng, src: &[u8], e: Edit) -> Vec<u8> {
    let n = src.len();
    let span = |rng: &mut Rng| -> (usize, usize) {
        if n == 0 {
            return (0, 0);
        }
        let a = rng.usize_below(n);
        let l = rng.urange(1, (n - a).min(1 + n / 3));
        (a, l)
    };
    match e {
        Edit::Same => src.to_vec(),
        Edit::Unrelated => {
            let l = rng.urange(0, n + n / 2 + 10);
            rng.bytes(l)
        }
        Edit::Empty => Vec::new(),
        Edit::Insert => {
            let at = if n == 0 { 0 } else { rng.usize_below(n + 1) };
            let ins_len = rng.urange(1, 1 + n / 4 + 40);
            let ins = rng.bytes(ins_len);
            let mut v = src[..at].to_vec();
            v.extend(ins);
            v.extend_from_slice(&src[at..]);
            v
        }
        Edit::Delete => {
            let (a, l) = span(rng);
            let mut v = src[..a].to_vec();
            v.extend_from_slice(&src[a + l..]);
            v
        }
        Edit::Swap => {
            if n < 4 {
                return src.to_vec();
            }
            // pieces A B C D -> A C B D
            let mut cuts = [
                rng.usize_below(n + 1),
                rng.usize_below(n + 1),
                rng.usize_below(n + 1),
            ];
            cuts.sort();
            let mut v = src[..cuts[0]].to_vec();
            v.extend_from_slice(&src[cuts[1]..cuts[2]]);
            v.extend_from_slice(&src[cuts[0]..cuts[1]]);
            v.extend_from_slice(&src[cuts[2]..]);
            v
        }
        Edit::Duplicate => {
            let (a, l) = span(rng);
            let at = if n == 0 { 0 } else { rng.usize_below(n + 1) };
            let mut v = src[..at].to_vec();
            v.extend_from_slice(&src[a..a + l]);
            v.extend_from_slice(&src[at..]);
            v
        }
        Edit::Truncate => {
            let l = if n == 0 { 0 } else { rng.usize_below(n) };
            src[..l].to_vec()
        }
        Edit::Prefix => {
            // junk prefix then the whole source (shifts everything)
            let l = rng.urange(1, 1 + n / 5 + 50);
            let mut v = rng.bytes(l);
            v.extend_from_slice(src);
            v
        }
        Edit::Extend => {
            let mut v = src.to_vec();
            let l = rng.urange(1, 1 + n / 2 + 50);
            v.extend(rng.bytes(l));
            v
        }
        Edit::Overwrite => {
            let mut v = src.to_vec();
            let k = rng.urange(1, 4);
            for _ in 0..k {
                let (a, l) = span(rng);
                let l = l.min(1 + n / 10);
                for b in v.iter_mut().skip(a).take(l) {
                    *b = rng.below(256) as u8;
                }
            }
            v
        }
        Edit::Mixed => {
            let mut v = src.to_vec();
            let k = rng.urange(2, 4);
            for _ in 0..k {
                let e = *rng.pick(&[
                    Edit::Insert,
                    Edit::Delete,
                    Edit::Swap,
                    Edit::Duplicate,
                    Edit::Overwrite,
                    Edit::Extend,
                    Edit::Truncate,
                ]);
                v = apply_edit(rng, &v, e);
            }
            v
        }
    }
}
