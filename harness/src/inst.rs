//! In-process instruments: fragmenting reader, logging/faulting in-memory file,
//! recording archive reader.
use crate::util::Rng;
use async_trait::async_trait;
use bitar::archive_reader::ArchiveReader;
use bitar::ChunkOffset;
use bytes::Bytes;
use futures_util::stream::{Stream, StreamExt};
use std::io;
use std::pin::Pin;
use std::sync::{Arc, Mutex};
use std::task::{Context, Poll};
use tokio::io::{AsyncRead, AsyncSeek, AsyncWrite, ReadBuf};

/// How a byte string is cut into reads.
#[derive(Clone, Debug)]
pub enum FragPlan {
    /// As much as the caller's buffer takes.
    All,
    /// Every read returns at most n bytes.
    Fixed(usize),
    /// Read sizes taken from the list, cyclically.
    List(Vec<usize>),
    /// Random sizes in 1..=max from the given seed.
    Random { seed: u64, max: usize },
}

/// Which polls return Pending (after arranging to be woken).
#[derive(Clone, Debug)]
pub enum PendPlan {
    Never,
    /// Every k-th poll.
    Every(u64),
    /// With probability num/den, from seed.
    Random { seed: u64, num: u64, den: u64 },
    /// Explicit bitmap over poll indexes (cyclic).
    Bits(Vec<bool>),
}

pub struct FragSource {
    data: Arc<Vec<u8>>,
    pos: usize,
    frag: FragPlan,
    pend: PendPlan,
    frag_i: usize,
    polls: u64,
    rng: Rng,
    prng: Rng,
    seek_target: Option<u64>,
    pub reads: u64,
    pub pendings: u64,
    just_pended: bool,
    /// Fail once, instead of the read with this index, with this error kind.
    pub err_at: Option<(u64, io::ErrorKind)>,
}

impl FragSource {
    pub fn new(data: Arc<Vec<u8>>, frag: FragPlan, pend: PendPlan) -> Self {
        let rs = match &frag {
            FragPlan::Random { seed, .. } => *seed,
            _ => 1,
        };
        let ps = match &pend {
            PendPlan::Random { seed, .. } => *seed,
            _ => 2,
        };
        FragSource {
            data,
            pos: 0,
            frag,
            pend,
            frag_i: 0,
            polls: 0,
            rng: Rng::new(rs),
            prng: Rng::new(ps),
            seek_target: None,
            reads: 0,
            pendings: 0,
            just_pended: false,
            err_at: None,
        }
    }
    pub fn plain(data: Vec<u8>) -> Self {
        Self::new(Arc::new(data), FragPlan::All, PendPlan::Never)
    }
    fn want_pending(&mut self) -> bool {
        // Never return Pending twice in a row: guarantees progress.
        if self.just_pended {
            self.just_pended = false;
            self.polls += 1;
            return false;
        }
        let i = self.polls;
        self.polls += 1;
        let p = match &self.pend {
            PendPlan::Never => false,
            PendPlan::Every(k) => *k > 0 && i % *k == *k - 1,
            PendPlan::Random { num, den, .. } => {
                let (n, d) = (*num, *den);
                self.prng.chance(n, d)
            }
            PendPlan::Bits(b) => !b.is_empty() && b[(i as usize) % b.len()],
        };
        if p {
            self.just_pended = true;
            self.pendings += 1;
        }
        p
    }
    fn next_size(&mut self) -> usize {
        match &self.frag {
            FragPlan::All => usize::MAX,
            FragPlan::Fixed(n) => (*n).max(1),
            FragPlan::List(l) => {
                if l.is_empty() {
                    usize::MAX
                } else {
                    let v = l[self.frag_i % l.len()];
                    self.frag_i += 1;
                    v.max(1)
                }
            }
            FragPlan::Random { max, .. } => {
                let m = (*max).max(1);
                self.rng.urange(1, m)
            }
        }
    }
}

impl AsyncRead for FragSource {
    fn poll_read(
        mut self: Pin<&mut Self>,
        cx: &mut Context<'_>,
        buf: &mut ReadBuf<'_>,
    ) -> Poll<io::Result<()>> {
        let me = &mut *self;
        if me.want_pending() {
            cx.waker().wake_by_ref();
            return Poll::Pending;
        }
        let left = me.data.len().saturating_sub(me.pos);
        if left == 0 || buf.remaining() == 0 {
            return Poll::Ready(Ok(()));
        }
        if let Some((k, kind)) = me.err_at {
            if k == me.reads {
                me.err_at = None;
                return Poll::Ready(Err(io::Error::new(kind, "injected source read error")));
            }
        }
        let n = me.next_size().min(left).min(buf.remaining());
        buf.put_slice(&me.data[me.pos..me.pos + n]);
        me.pos += n;
        me.reads += 1;
        Poll::Ready(Ok(()))
    }
}

impl AsyncSeek for FragSource {
    fn start_seek(mut self: Pin<&mut Self>, position: io::SeekFrom) -> io::Result<()> {
        let len = self.data.len() as i64;
        let target = match position {
            io::SeekFrom::Start(o) => o as i64,
            io::SeekFrom::End(d) => len + d,
            io::SeekFrom::Current(d) => self.pos as i64 + d,
        };
        if target < 0 {
            return Err(io::Error::new(io::ErrorKind::InvalidInput, "negative seek"));
        }
        self.seek_target = Some(target as u64);
        Ok(())
    }
    fn poll_complete(mut self: Pin<&mut Self>, cx: &mut Context<'_>) -> Poll<io::Result<u64>> {
        let me = &mut *self;
        if me.seek_target.is_some() && me.want_pending() {
            cx.waker().wake_by_ref();
            return Poll::Pending;
        }
        if let Some(t) = me.seek_target.take() {
            me.pos = t as usize;
        }
        Poll::Ready(Ok(me.pos as u64))
    }
}

// ---------------------------------------------------------------------------

#[derive(Clone, Debug, PartialEq, Eq)]
pub enum MemOp {
    Seek(u64),
    Read { off: u64, len: usize },
    /// One write call as it reached the "file": offset and the bytes accepted.
    Write { off: u64, data: Vec<u8> },
}

/// What happens at the k-th write call (0-based, counting every poll_write that
/// would transfer data).
#[derive(Clone, Debug, PartialEq, Eq)]
pub enum WriteFault {
    None,
    /// Return an error, nothing written.
    Error { k: u64 },
    /// Accept the first `t` bytes, then the file is dead (process crash): this and
    /// every later operation fails.
    Crash { k: u64, t: usize },
}

/// In-memory file with an operation log, short transfers, Pending and faults.
pub struct MemFile {
    pub data: Vec<u8>,
    pos: u64,
    pub log: Vec<MemOp>,
    pub log_reads: bool,
    pub writes: u64,
    fault: WriteFault,
    pub dead: bool,
    pub fault_fired: bool,
    /// Max bytes per read/write call (short transfers), 0 = unlimited.
    pub max_xfer: usize,
    rng: Rng,
    pub random_xfer: bool,
    pend_den: u64,
    just_pended: bool,
    seek_target: Option<u64>,
}

impl MemFile {
    pub fn new(data: Vec<u8>) -> Self {
        MemFile {
            data,
            pos: 0,
            log: Vec::new(),
            log_reads: false,
            writes: 0,
            fault: WriteFault::None,
            dead: false,
            fault_fired: false,
            max_xfer: 0,
            rng: Rng::new(3),
            random_xfer: false,
            pend_den: 0,
            just_pended: false,
            seek_target: None,
        }
    }
    pub fn with_fault(mut self, f: WriteFault) -> Self {
        self.fault = f;
        self
    }
    /// Short transfers of random size 1..=max and Pending with probability 1/den.
    pub fn with_chaos(mut self, seed: u64, max_xfer: usize, pend_den: u64) -> Self {
        self.rng = Rng::new(seed);
        self.max_xfer = max_xfer;
        self.random_xfer = true;
        self.pend_den = pend_den;
        self
    }
    fn pend(&mut self) -> bool {
        if self.just_pended {
            self.just_pended = false;
            return false;
        }
        if self.pend_den > 0 && self.rng.chance(1, self.pend_den) {
            self.just_pended = true;
            return true;
        }
        false
    }
    fn xfer(&mut self, want: usize) -> usize {
        if self.max_xfer == 0 || want == 0 {
            return want;
        }
        let m = if self.random_xfer {
            self.rng.urange(1, self.max_xfer)
        } else {
            self.max_xfer
        };
        want.min(m)
    }
    fn dead_err() -> io::Error {
        io::Error::new(io::ErrorKind::Other, "memfile: process crashed")
    }
    /// The writes only, in order.
    pub fn write_log(&self) -> Vec<(u64, Vec<u8>)> {
        self.log
            .iter()
            .filter_map(|op| match op {
                MemOp::Write { off, data } => Some((*off, data.clone())),
                _ => None,
            })
            .collect()
    }
}

impl AsyncRead for MemFile {
    fn poll_read(
        mut self: Pin<&mut Self>,
        cx: &mut Context<'_>,
        buf: &mut ReadBuf<'_>,
    ) -> Poll<io::Result<()>> {
        let me = &mut *self;
        if me.dead {
            return Poll::Ready(Err(Self::dead_err()));
        }
        if me.pend() {
            cx.waker().wake_by_ref();
            return Poll::Pending;
        }
        let len = me.data.len() as u64;
        if me.pos >= len || buf.remaining() == 0 {
            return Poll::Ready(Ok(()));
        }
        let want = ((len - me.pos) as usize).min(buf.remaining());
        let n = me.xfer(want);
        let p = me.pos as usize;
        buf.put_slice(&me.data[p..p + n]);
        if me.log_reads {
            me.log.push(MemOp::Read { off: me.pos, len: n });
        }
        me.pos += n as u64;
        Poll::Ready(Ok(()))
    }
}

impl AsyncWrite for MemFile {
    fn poll_write(
        mut self: Pin<&mut Self>,
        cx: &mut Context<'_>,
        buf: &[u8],
    ) -> Poll<io::Result<usize>> {
        let me = &mut *self;
        if me.dead {
            return Poll::Ready(Err(Self::dead_err()));
        }
        if buf.is_empty() {
            return Poll::Ready(Ok(0));
        }
        if me.pend() {
            cx.waker().wake_by_ref();
            return Poll::Pending;
        }
        let k = me.writes;
        me.writes += 1;
        let mut n = me.xfer(buf.len());
        let mut die = false;
        match me.fault {
            WriteFault::Error { k: fk } if fk == k => {
                me.fault_fired = true;
                return Poll::Ready(Err(io::Error::new(
                    io::ErrorKind::Other,
                    "memfile: injected write error",
                )));
            }
            WriteFault::Crash { k: fk, t } if fk == k => {
                me.fault_fired = true;
                n = t.min(buf.len());
                die = true;
            }
            _ => {}
        }
        let p = me.pos as usize;
        if n > 0 {
            if me.data.len() < p + n {
                me.data.resize(p + n, 0);
            }
            me.data[p..p + n].copy_from_slice(&buf[..n]);
            me.log.push(MemOp::Write {
                off: me.pos,
                data: buf[..n].to_vec(),
            });
            me.pos += n as u64;
        }
        if die {
            me.dead = true;
            return Poll::Ready(Err(Self::dead_err()));
        }
        Poll::Ready(Ok(n))
    }
    fn poll_flush(self: Pin<&mut Self>, _cx: &mut Context<'_>) -> Poll<io::Result<()>> {
        if self.dead {
            return Poll::Ready(Err(Self::dead_err()));
        }
        Poll::Ready(Ok(()))
    }
    fn poll_shutdown(self: Pin<&mut Self>, _cx: &mut Context<'_>) -> Poll<io::Result<()>> {
        Poll::Ready(Ok(()))
    }
}

impl AsyncSeek for MemFile {
    fn start_seek(mut self: Pin<&mut Self>, position: io::SeekFrom) -> io::Result<()> {
        if self.dead {
            return Err(Self::dead_err());
        }
        let len = self.data.len() as i64;
        let target = match position {
            io::SeekFrom::Start(o) => o as i64,
            io::SeekFrom::End(d) => len + d,
            io::SeekFrom::Current(d) => self.pos as i64 + d,
        };
        if target < 0 {
            return Err(io::Error::new(io::ErrorKind::InvalidInput, "negative seek"));
        }
        self.seek_target = Some(target as u64);
        Ok(())
    }
    fn poll_complete(mut self: Pin<&mut Self>, cx: &mut Context<'_>) -> Poll<io::Result<u64>> {
        let me = &mut *self;
        if me.dead {
            return Poll::Ready(Err(Self::dead_err()));
        }
        if me.seek_target.is_some() && me.pend() {
            cx.waker().wake_by_ref();
            return Poll::Pending;
        }
        if let Some(t) = me.seek_target.take() {
            me.pos = t;
            me.log.push(MemOp::Seek(t));
        }
        Poll::Ready(Ok(me.pos))
    }
}

// ---------------------------------------------------------------------------

#[derive(Clone, Debug, PartialEq, Eq)]
pub enum RecEvent {
    ReadAt { offset: u64, size: usize, ok: bool, got: usize },
    ReadChunks { ranges: Vec<(u64, usize)> },
    Item { index: usize, ok: bool, len: usize },
}

/// Wraps an ArchiveReader and records what was asked of it and what it delivered.
pub struct RecReader<R> {
    inner: R,
    pub log: Arc<Mutex<Vec<RecEvent>>>,
}

impl<R> RecReader<R> {
    pub fn new(inner: R) -> Self {
        RecReader {
            inner,
            log: Arc::new(Mutex::new(Vec::new())),
        }
    }
}

#[async_trait]
impl<R> ArchiveReader for RecReader<R>
where
    R: ArchiveReader + Send,
    R::Error: Send,
{
    type Error = R::Error;

    async fn read_at<'a>(&'a mut self, offset: u64, size: usize) -> Result<Bytes, Self::Error> {
        let r = self.inner.read_at(offset, size).await;
        self.log.lock().unwrap().push(RecEvent::ReadAt {
            offset,
            size,
            ok: r.is_ok(),
            got: r.as_ref().map(|b| b.len()).unwrap_or(0),
        });
        r
    }

    fn read_chunks<'a>(
        &'a mut self,
        chunks: Vec<ChunkOffset>,
    ) -> Pin<Box<dyn Stream<Item = Result<Bytes, Self::Error>> + Send + 'a>> {
        self.log.lock().unwrap().push(RecEvent::ReadChunks {
            ranges: chunks.iter().map(|c| (c.offset, c.size)).collect(),
        });
        let log = self.log.clone();
        let mut index = 0usize;
        Box::pin(self.inner.read_chunks(chunks).map(move |r| {
            log.lock().unwrap().push(RecEvent::Item {
                index,
                ok: r.is_ok(),
                len: r.as_ref().map(|b| b.len()).unwrap_or(0),
            });
            index += 1;
            r
        }))
    }
}
