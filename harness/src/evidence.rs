//! Verdict bookkeeping, evidence files, known findings and replay files.
use crate::util::verif_root;
use serde_json::{json, Map, Value};
use std::collections::{BTreeMap, BTreeSet};
use std::sync::Mutex;
use std::time::Instant;

#[derive(Clone, Copy, Debug, PartialEq, Eq)]
pub enum Tier {
    Quick,
    Thorough,
}

impl Tier {
    pub fn name(self) -> &'static str {
        match self {
            Tier::Quick => "quick",
            Tier::Thorough => "thorough",
        }
    }
    pub fn pick<T>(self, quick: T, thorough: T) -> T {
        match self {
            Tier::Quick => quick,
            Tier::Thorough => thorough,
        }
    }
}

#[derive(Default)]
struct Inner {
    evaluations: u64,
    /// 64-bit fingerprints of the distinct non-trivial case keys (only their number is reported).
    nontrivial: std::collections::HashSet<u64>,
    samples: Vec<Value>,
    counters: BTreeMap<String, u64>,
    sets: BTreeMap<String, BTreeSet<String>>,
    inconclusive: u64,
    inconclusive_reasons: BTreeMap<String, u64>,
    violations: Vec<Value>,
    known_hits: BTreeMap<String, u64>,
    unlisted: u64,
    broken: Vec<String>,
    notes: Vec<String>,
    replay_n: u64,
    signatures: BTreeSet<String>,
}

pub struct Report {
    pub id: &'static str,
    pub level: &'static str,
    pub tier: Tier,
    pub seed: u64,
    pub replay_mode: bool,
    start: Instant,
    inner: Mutex<Inner>,
    known: Vec<(String, String)>, // (signature, what) for this property
    max_samples: usize,
}

impl Report {
    pub fn new(id: &'static str, level: &'static str, tier: Tier, seed: u64) -> Self {
        let mut known = Vec::new();
        let path = verif_root().join("known_findings.json");
        if let Ok(s) = std::fs::read_to_string(&path) {
            if let Ok(v) = serde_json::from_str::<Value>(&s) {
                if let Some(arr) = v.get("findings").and_then(|x| x.as_array()) {
                    for f in arr {
                        if f.get("property").and_then(|x| x.as_str()) == Some(id) {
                            known.push((
                                f.get("signature")
                                    .and_then(|x| x.as_str())
                                    .unwrap_or("")
                                    .to_string(),
                                f.get("what")
                                    .and_then(|x| x.as_str())
                                    .unwrap_or("")
                                    .to_string(),
                            ));
                        }
                    }
                }
            }
        }
        Report {
            id,
            level,
            tier,
            seed,
            replay_mode: false,
            start: Instant::now(),
            inner: Mutex::new(Inner::default()),
            known,
            max_samples: 12,
        }
    }

    /// One execution observed and judged.
    pub fn eval(&self) {
        self.inner.lock().unwrap().evaluations += 1;
    }
    pub fn evals(&self, n: u64) {
        self.inner.lock().unwrap().evaluations += n;
    }
    /// Record a distinct non-trivial case key (counted as a set).
    pub fn nontrivial(&self, key: String) {
        use std::hash::{Hash, Hasher};
        let mut h = std::collections::hash_map::DefaultHasher::new();
        key.hash(&mut h);
        self.inner.lock().unwrap().nontrivial.insert(h.finish());
    }
    pub fn count(&self, name: &str, n: u64) {
        *self
            .inner
            .lock()
            .unwrap()
            .counters
            .entry(name.to_string())
            .or_insert(0) += n;
    }
    pub fn counter(&self, name: &str) -> u64 {
        self.inner
            .lock()
            .unwrap()
            .counters
            .get(name)
            .copied()
            .unwrap_or(0)
    }
    /// Record a member of a named set whose size is reported (distinct things seen).
    pub fn seen(&self, set: &str, member: String) {
        let mut g = self.inner.lock().unwrap();
        let s = g.sets.entry(set.to_string()).or_default();
        if s.len() < 200_000 {
            s.insert(member);
        }
    }
    pub fn seen_count(&self, set: &str) -> usize {
        self.inner
            .lock()
            .unwrap()
            .sets
            .get(set)
            .map(|s| s.len())
            .unwrap_or(0)
    }
    pub fn sample(&self, v: Value) {
        let mut g = self.inner.lock().unwrap();
        if g.samples.len() < self.max_samples {
            g.samples.push(v);
        }
    }
    /// Keep a sample only for every `every`-th evaluation-ish call (spread samples).
    pub fn sample_if(&self, cond: bool, v: impl FnOnce() -> Value) {
        if cond {
            let mut g = self.inner.lock().unwrap();
            if g.samples.len() < self.max_samples {
                g.samples.push(v());
            }
        }
    }
    pub fn inconclusive(&self, reason: &str) {
        let mut g = self.inner.lock().unwrap();
        g.inconclusive += 1;
        *g.inconclusive_reasons
            .entry(reason.to_string())
            .or_insert(0) += 1;
    }
    pub fn note(&self, s: String) {
        self.inner.lock().unwrap().notes.push(s);
    }
    /// The check itself is broken (self-test failed, monitor observed nothing):
    /// exit non-zero *without* a VIOLATION line.
    pub fn broken(&self, why: String) {
        eprintln!("CHECK-BROKEN property={} {}", self.id, why);
        self.inner.lock().unwrap().broken.push(why);
    }

    /// A violated case. `signature` is the stable identity (input class + failure
    /// signature) matched against known_findings.json; `replay` must contain what
    /// `bvh replay` needs to re-run exactly this case.
    pub fn violation(&self, signature: &str, detail: Value, replay: Value) {
        let mut g = self.inner.lock().unwrap();
        if let Some((_, what)) = self.known.iter().find(|(s, _)| s == signature) {
            let n = g.known_hits.entry(signature.to_string()).or_insert(0);
            *n += 1;
            if *n == 1 {
                println!("KNOWN-FINDING: property={} {} [{}]", self.id, what, signature);
            }
            return;
        }
        g.unlisted += 1;
        if g.signatures.len() < 5000 {
            g.signatures.insert(signature.to_string());
        }
        if g.violations.len() < 50 {
            g.violations
                .push(json!({"signature": signature, "detail": detail}));
        }
        if g.unlisted <= 20 {
            let dir = verif_root().join("replay").join(self.id);
            let _ = std::fs::create_dir_all(&dir);
            g.replay_n += 1;
            let path = dir.join(format!("{}-{}-{}.json", self.tier.name(), self.seed, g.replay_n));
            let body = json!({
                "property": self.id,
                "signature": signature,
                "detail": detail,
                "replay": replay,
            });
            let _ = std::fs::write(&path, serde_json::to_string_pretty(&body).unwrap());
            println!(
                "VIOLATION property={} replay={}",
                self.id,
                path.display()
            );
            println!("  signature: {}", signature);
            let d = serde_json::to_string(&body["detail"]).unwrap();
            println!("  detail: {}", &d[..d.len().min(1500)]);
        }
    }

    pub fn violations(&self) -> u64 {
        self.inner.lock().unwrap().unlisted
    }

    /// Write the evidence file and return the process exit code.
    pub fn finish(&self, rule: &str, assumptions: &[&str], extra: Value, exhaustive: bool) -> i32 {
        let g = self.inner.lock().unwrap();
        let wall = self.start.elapsed().as_secs_f64();
        let mut cov = Map::new();
        cov.insert("evaluations".into(), json!(g.evaluations));
        cov.insert("distinct_nontrivial".into(), json!(g.nontrivial.len()));
        cov.insert("rule".into(), json!(rule));
        cov.insert("samples".into(), Value::Array(g.samples.clone()));
        if exhaustive {
            cov.insert("exhaustive".into(), json!(true));
        }
        cov.insert("inconclusive".into(), json!(g.inconclusive));
        if !g.inconclusive_reasons.is_empty() {
            cov.insert("inconclusive_reasons".into(), json!(g.inconclusive_reasons));
        }
        cov.insert("counters".into(), json!(g.counters));
        let sets: BTreeMap<String, usize> =
            g.sets.iter().map(|(k, v)| (k.clone(), v.len())).collect();
        cov.insert("distinct_observed".into(), json!(sets));
        if !g.known_hits.is_empty() {
            cov.insert("known_findings_hit".into(), json!(g.known_hits));
        }
        if !g.notes.is_empty() {
            cov.insert("notes".into(), json!(g.notes));
        }
        if !g.violations.is_empty() {
            cov.insert("violation_details".into(), Value::Array(g.violations.clone()));
            cov.insert("violation_signatures".into(), json!(g.signatures));
        }
        if !g.broken.is_empty() {
            cov.insert("check_broken".into(), json!(g.broken));
        }
        if let Value::Object(m) = extra {
            for (k, v) in m {
                cov.insert(k, v);
            }
        }
        let ev = json!({
            "property_id": self.id,
            "tier": self.tier.name(),
            "seed": self.seed,
            "level": self.level,
            "coverage": Value::Object(cov),
            "assumptions": assumptions,
            "wall_s": (wall * 100.0).round() / 100.0,
            "violations": g.unlisted,
        });
        if !self.replay_mode {
            // Runs against deliberately broken trees (mutants, seeded breaks) write their
            // evidence elsewhere so that /verif/evidence always describes the unchanged tree.
            let dir = std::env::var_os("VERIF_EVIDENCE_DIR")
                .map(std::path::PathBuf::from)
                .unwrap_or_else(|| verif_root().join("evidence"));
            let _ = std::fs::create_dir_all(&dir);
            let path = dir.join(format!("{}.json", self.id));
            std::fs::write(&path, serde_json::to_string_pretty(&ev).unwrap())
                .expect("write evidence");
        }
        println!(
            "{} {}: evaluations={} distinct_nontrivial={} inconclusive={} known_hits={} violations={} wall={:.1}s",
            self.id,
            self.tier.name(),
            g.evaluations,
            g.nontrivial.len(),
            g.inconclusive,
            g.known_hits.values().sum::<u64>(),
            g.unlisted,
            wall
        );
        for (k, v) in &g.inconclusive_reasons {
            println!("  inconclusive {} = {}", k, v);
        }
        for (k, v) in &g.counters {
            println!("  counter {} = {}", k, v);
        }
        for (k, v) in &g.sets {
            println!("  distinct {} = {}", k, v.len());
        }
        if g.unlisted > 0 {
            1
        } else if !g.broken.is_empty() {
            2
        } else {
            0
        }
    }
}
