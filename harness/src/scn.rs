//! Scenario kit for process-level checks: make archives with the real CLI, build
//! clone command lines, judge outputs.
use crate::gen::{self, Comp};
use crate::proc::{self, p, s, Outcome, Run};
use crate::refimpl::chunker::Cfg;
use crate::refimpl::codec;
use crate::refimpl::model::Model;
use std::path::{Path, PathBuf};

pub struct Arch {
    pub path: PathBuf,
    pub bytes: Vec<u8>,
    pub model: Model,
    pub source: Vec<u8>,
    pub compress_outcome: Option<Outcome>,
}

#[derive(Clone, Debug)]
pub struct CompressSpec {
    pub cfg: Cfg,
    pub comp: Comp,
    pub hash_len: usize,
    pub buffered: Option<usize>,
    /// Deliver the source on stdin (piece seed) instead of `-i file`.
    pub stdin: Option<u64>,
    pub force: bool,
    /// With `force`: the output path already holds this many junk bytes (an older,
    /// possibly larger file that --force-create must replace completely).
    pub preexisting: Option<usize>,
    /// The temp-file path already holds this many junk bytes (what an earlier failed or
    /// interrupted compress leaves behind).
    pub stale_temp: Option<usize>,
    pub metadata_values: Vec<(String, String)>,
    pub metadata_files: Vec<(String, Vec<u8>)>,
    /// A further `--metadata-file KEY PATH` whose PATH cannot be read (kind 0: does not
    /// exist, 1: is a directory). Nothing can be recorded for KEY, so compress must not
    /// report success.
    pub unreadable_metadata: Option<(String, u8)>,
}

impl CompressSpec {
    pub fn new(cfg: Cfg, comp: Comp, hash_len: usize) -> Self {
        CompressSpec {
            cfg,
            comp,
            hash_len,
            buffered: None,
            stdin: None,
            force: false,
            preexisting: None,
            stale_temp: None,
            metadata_values: vec![],
            metadata_files: vec![],
            unreadable_metadata: None,
        }
    }
    pub fn describe(&self) -> String {
        format!(
            "{} {} hash={} buffered={:?} stdin={}",
            self.cfg.describe(),
            self.comp.describe(),
            self.hash_len,
            self.buffered,
            self.stdin.is_some()
        )
    }
}

/// Build the `bita compress` run for `source` (written to `<dir>/<name>.src`).
pub fn compress_run(dir: &Path, name: &str, source: &[u8], spec: &CompressSpec) -> (Run, PathBuf) {
    let src_path = dir.join(format!("{}.src", name));
    let out_path = dir.join(format!("{}.cba", name));
    let mut args = vec![s("compress")];
    let mut run_stdin = None;
    if let Some(seed) = spec.stdin {
        run_stdin = Some((source.to_vec(), seed));
    } else {
        std::fs::write(&src_path, source).expect("write source");
        args.push(s("-i"));
        args.push(p(&src_path));
    }
    args.extend(gen::cli_chunker_args(&spec.cfg));
    args.extend(spec.comp.cli_args());
    args.push(s("--hash-length"));
    args.push(spec.hash_len.to_string());
    if let Some(b) = spec.buffered {
        args.push(s("--buffered-chunks"));
        args.push(b.to_string());
    }
    if spec.force {
        args.push(s("--force-create"));
    }
    for (k, v) in &spec.metadata_values {
        args.push(s("--metadata-value"));
        args.push(k.clone());
        args.push(v.clone());
    }
    for (i, (k, v)) in spec.metadata_files.iter().enumerate() {
        let mp = dir.join(format!("{}.meta{}", name, i));
        std::fs::write(&mp, v).expect("write metadata file");
        args.push(s("--metadata-file"));
        args.push(k.clone());
        args.push(p(&mp));
    }
    if let Some((k, kind)) = &spec.unreadable_metadata {
        let mp = dir.join(format!("{}.metabad", name));
        let _ = std::fs::remove_file(&mp);
        if *kind == 1 {
            std::fs::create_dir_all(&mp).expect("create directory as metadata path");
        }
        args.push(s("--metadata-file"));
        args.push(k.clone());
        args.push(p(&mp));
    }
    args.push(p(&out_path));
    let mut run = Run::new(dir, &format!("{}.compress", name), args);
    run.stdin = run_stdin;
    (run, out_path)
}

pub fn temp_path_of(archive: &Path) -> PathBuf {
    // cli.rs: Path::with_extension(output, ".tmp")
    archive.with_extension(".tmp")
}

/// Make an archive with the real CLI (no injection) and decode it with R2/R3.
/// Err = the scenario could not be built (inconclusive for clone-side checks).
pub fn make_archive(dir: &Path, name: &str, source: &[u8], spec: &CompressSpec) -> Result<Arch, String> {
    let (run, out_path) = compress_run(dir, name, source, spec);
    let _ = std::fs::remove_file(&out_path);
    let o = proc::run(&run);
    if !o.exit.ok() {
        return Err(format!("compress failed: {} {}", o.exit.describe(), o.tail()));
    }
    let bytes = std::fs::read(&out_path).map_err(|e| format!("read archive: {}", e))?;
    let model = Model::from_archive(&bytes).map_err(|e| format!("R2 cannot decode archive: {}", e))?;
    let rebuilt = codec::reconstruct(&model.parsed, &bytes).map_err(|e| format!("R2 reconstruct: {}", e))?;
    if rebuilt != source {
        return Err("archive does not reconstruct to the source (compress defect, see C01/C11)".into());
    }
    Ok(Arch {
        path: out_path,
        bytes,
        model,
        source: source.to_vec(),
        compress_outcome: Some(o),
    })
}

#[derive(Clone, Debug, Default)]
pub struct CloneSpec {
    pub archive: String,
    pub output: PathBuf,
    pub seeds: Vec<PathBuf>,
    /// Position of `--seed -` among the seed arguments is irrelevant: stdin is
    /// always consumed first by the CLI.
    pub stdin_seed: bool,
    pub seed_output: bool,
    pub force: bool,
    pub verify_output: bool,
    pub verify_header: Option<String>,
    pub buffered: Option<usize>,
    pub retries: Option<u32>,
    pub verbose: bool,
    /// Further options passed as they are (--http-timeout N, --http-header H, ...).
    pub extra: Vec<String>,
}

pub fn clone_args(c: &CloneSpec) -> Vec<String> {
    let mut a = vec![s("clone")];
    if c.verbose {
        a.push(s("-v"));
    }
    for sd in &c.seeds {
        a.push(s("--seed"));
        a.push(p(sd));
    }
    if c.stdin_seed {
        a.push(s("--seed"));
        a.push(s("-"));
    }
    if c.seed_output {
        a.push(s("--seed-output"));
    }
    if c.force {
        a.push(s("--force-create"));
    }
    if c.verify_output {
        a.push(s("--verify-output"));
    }
    if let Some(h) = &c.verify_header {
        a.push(s("--verify-header"));
        a.push(h.clone());
    }
    if let Some(b) = c.buffered {
        a.push(s("--buffered-chunks"));
        a.push(b.to_string());
    }
    if let Some(r) = c.retries {
        a.push(s("--http-retry-count"));
        a.push(r.to_string());
    }
    a.extend(c.extra.iter().cloned());
    a.push(c.archive.clone());
    a.push(p(&c.output));
    a
}

/// Per-case scratch directory under /verif/.work/<check>/<n>.
pub fn case_dir(check: &str, n: usize) -> PathBuf {
    let d = crate::util::work_root().join(check).join(format!("c{}", n));
    crate::util::ensure_clean_dir(&d);
    d
}

pub fn cleanup(dir: &Path, keep: bool) {
    if !keep {
        let _ = std::fs::remove_dir_all(dir);
    }
}

pub fn read_or_empty(pth: &Path) -> Option<Vec<u8>> {
    std::fs::read(pth).ok()
}

/// Attach `img` to a free loop device and create a PRIVATE block device node for it in
/// `dir` (same major/minor), so that a buggy build that unlinks or replaces its output
/// can never damage the system's /dev/loopN nodes. Returns (system device, private node).
pub fn attach_loop(img: &Path, dir: &Path) -> Option<(String, PathBuf)> {
    use std::os::unix::fs::MetadataExt;
    let out = std::process::Command::new("losetup").args(["-f", "--show"]).arg(img).output().ok()?;
    if !out.status.success() {
        return None;
    }
    let dev = String::from_utf8_lossy(&out.stdout).trim().to_string();
    let node = dir.join("blkdev");
    let _ = std::fs::remove_file(&node);
    let made = std::fs::metadata(&dev).ok().and_then(|m| {
        let c = std::ffi::CString::new(node.display().to_string()).ok()?;
        let rc = unsafe { libc::mknod(c.as_ptr(), libc::S_IFBLK | 0o600, m.rdev()) };
        if rc == 0 {
            Some(())
        } else {
            None
        }
    });
    if made.is_none() {
        detach_loop(&dev);
        return None;
    }
    Some((dev, node))
}

pub fn detach_loop(dev: &str) {
    let _ = std::process::Command::new("losetup").arg("-d").arg(dev).status();
}


/// Feeds `data` into a named pipe from a thread: the way a path that is not a regular
/// file (`-i <(...)`, a device node) delivers its bytes. `finish` must be called after the
/// consumer has exited.
pub struct FifoFeeder {
    pub path: PathBuf,
    stop: std::sync::Arc<std::sync::atomic::AtomicBool>,
    handle: Option<std::thread::JoinHandle<()>>,
}

impl FifoFeeder {
    pub fn start(path: PathBuf, data: Vec<u8>) -> Option<FifoFeeder> {
        let _ = std::fs::remove_file(&path);
        let c = std::ffi::CString::new(path.to_string_lossy().as_bytes()).ok()?;
        if unsafe { libc::mkfifo(c.as_ptr(), 0o600) } != 0 {
            return None;
        }
        let stop = std::sync::Arc::new(std::sync::atomic::AtomicBool::new(false));
        let stop2 = stop.clone();
        let handle = std::thread::spawn(move || {
            use std::io::Write;
            use std::os::unix::io::FromRawFd;
            loop {
                // ENXIO until the consumer has opened the pipe for reading
                let fd = unsafe { libc::open(c.as_ptr(), libc::O_WRONLY | libc::O_NONBLOCK | libc::O_CLOEXEC) };
                if fd >= 0 {
                    unsafe {
                        let fl = libc::fcntl(fd, libc::F_GETFL);
                        libc::fcntl(fd, libc::F_SETFL, fl & !libc::O_NONBLOCK);
                    }
                    let mut f = unsafe { std::fs::File::from_raw_fd(fd) };
                    let _ = f.write_all(&data);
                    return;
                }
                if stop2.load(std::sync::atomic::Ordering::Relaxed) {
                    return;
                }
                std::thread::sleep(std::time::Duration::from_millis(2));
            }
        });
        Some(FifoFeeder { path, stop, handle: Some(handle) })
    }
    pub fn finish(mut self) {
        use std::os::unix::fs::OpenOptionsExt;
        self.stop.store(true, std::sync::atomic::Ordering::Relaxed);
        if let Some(h) = self.handle.take() {
            if !h.is_finished() {
                // release a feeder blocked in write() by draining the pipe ourselves
                if let Ok(mut f) = std::fs::OpenOptions::new().read(true).custom_flags(libc::O_NONBLOCK).open(&self.path) {
                    use std::io::Read;
                    let mut buf = vec![0u8; 1 << 16];
                    let t0 = std::time::Instant::now();
                    while !h.is_finished() && t0.elapsed().as_secs() < 5 {
                        let _ = f.read(&mut buf);
                        std::thread::sleep(std::time::Duration::from_millis(1));
                    }
                }
            }
            let _ = h.join();
        }
        let _ = std::fs::remove_file(&self.path);
    }
}
