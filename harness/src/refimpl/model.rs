//! R3 — clone model: what a clone of a given archive must fetch, may reuse and must
//! leave alone, computed from the R2-decoded dictionary, R1 chunking and Blake2.
use super::chunker::{self as r1, Algo, Cfg};
use super::codec::{self, Parsed};
use crate::util::b2;
use std::collections::{BTreeSet, HashMap};

#[derive(Clone, Debug)]
pub struct SrcChunk {
    pub off: u64,
    pub len: usize,
    pub desc: usize,
}

#[derive(Clone, Debug)]
pub struct Model {
    pub parsed: Parsed,
    pub cfg: Cfg,
    pub hash_len: usize,
    pub src_chunks: Vec<SrcChunk>,
    pub source_len: u64,
    pub key_to_desc: HashMap<Vec<u8>, usize>,
}

#[derive(Clone, Debug, Default)]
pub struct Prediction {
    /// Descriptor indexes that must be fetched, ascending (descriptor order).
    pub fetch: Vec<usize>,
    /// Descriptor indexes found in the prior output (when used as seed).
    pub from_prior: BTreeSet<usize>,
    /// Per seed (in consumption order) the descriptors it supplies.
    pub from_seeds: Vec<BTreeSet<usize>>,
    /// Source locations (offset, len) the prior output already holds in place.
    pub in_place: Vec<(u64, usize)>,
    /// Expected chunk-data requests (inclusive byte ranges) in order.
    pub requests: Vec<(u64, u64)>,
    /// Stored byte ranges (start, len) of the descriptors to fetch.
    pub fetch_ranges: Vec<(u64, usize)>,
    pub reused_bytes: u64,
}

pub fn cfg_of(p: &codec::Params) -> Result<Cfg, String> {
    let algo = match p.algo {
        0 => Algo::BuzHash,
        1 => Algo::RollSum,
        2 => Algo::Fixed,
        x => return Err(format!("unknown chunking algorithm {}", x)),
    };
    let cfg = if algo == Algo::Fixed {
        Cfg::fixed(p.max as usize)
    } else {
        Cfg {
            algo,
            window: p.window as usize,
            min: p.min as usize,
            max: p.max as usize,
            bits: p.filter_bits,
        }
    };
    Ok(cfg)
}

impl Model {
    pub fn from_archive(bytes: &[u8]) -> Result<Model, String> {
        let parsed = codec::parse_archive(bytes)?;
        let params = parsed.dict.params.clone().ok_or("no chunker parameters")?;
        let cfg = cfg_of(&params)?;
        let hash_len = params.hash_len as usize;
        let mut src_chunks = Vec::new();
        let mut off = 0u64;
        for &i in &parsed.dict.rebuild_order {
            let d = parsed
                .dict
                .descs
                .get(i as usize)
                .ok_or("rebuild index out of range")?;
            src_chunks.push(SrcChunk {
                off,
                len: d.source_size as usize,
                desc: i as usize,
            });
            off += d.source_size as u64;
        }
        let mut key_to_desc = HashMap::new();
        for (i, d) in parsed.dict.descs.iter().enumerate() {
            key_to_desc.entry(d.checksum.clone()).or_insert(i);
        }
        Ok(Model {
            source_len: parsed.dict.source_total_size,
            parsed,
            cfg,
            hash_len,
            src_chunks,
            key_to_desc,
        })
    }

    pub fn key_of(&self, data: &[u8]) -> Vec<u8> {
        b2(data)[..self.hash_len.min(64)].to_vec()
    }

    /// Chunks the archive's chunker finds in a stream: (offset, len, truncated hash).
    pub fn scan(&self, stream: &[u8]) -> Vec<(usize, usize, Vec<u8>)> {
        if !self.cfg.valid() {
            return Vec::new();
        }
        r1::chunk(&self.cfg, stream)
            .into_iter()
            .map(|(o, l)| (o, l, self.key_of(&stream[o..o + l])))
            .collect()
    }

    pub fn desc_abs(&self, i: usize) -> (u64, usize) {
        let d = &self.parsed.dict.descs[i];
        (
            self.parsed.chunk_data_offset + d.archive_offset,
            d.archive_size as usize,
        )
    }

    /// Maximal runs of byte-adjacent consecutive descriptors among `fetch`
    /// (ascending descriptor indexes), as inclusive ranges.
    pub fn runs(&self, fetch: &[usize]) -> Vec<(u64, u64)> {
        let mut out: Vec<(u64, u64)> = Vec::new();
        let mut cur: Option<(u64, u64)> = None; // (start, end exclusive)
        for &i in fetch {
            let (s, l) = self.desc_abs(i);
            match cur {
                Some((a, e)) if e == s => cur = Some((a, e + l as u64)),
                Some((a, e)) => {
                    out.push((a, e - 1));
                    cur = Some((s, s + l as u64));
                }
                None => cur = Some((s, s + l as u64)),
            }
        }
        if let Some((a, e)) = cur {
            out.push((a, e - 1));
        }
        out
    }

    /// Predict a clone. `prior`: content of the output when it is used as seed
    /// (`--seed-output`); `seeds`: seed streams in the order they are consumed
    /// (stdin first, then files in command-line order).
    pub fn predict(&self, prior: Option<&[u8]>, seeds: &[&[u8]]) -> Prediction {
        let mut p = Prediction::default();
        let mut remaining: BTreeSet<usize> = (0..self.parsed.dict.descs.len()).collect();
        // Descriptors never referenced by the rebuild order are not part of the source.
        let used: BTreeSet<usize> = self.src_chunks.iter().map(|c| c.desc).collect();
        remaining.retain(|i| used.contains(i));
        if let Some(prior) = prior {
            let found = self.scan(prior);
            let mut at: HashMap<(u64, Vec<u8>), usize> = HashMap::new();
            for (o, l, k) in &found {
                at.insert((*o as u64, k.clone()), *l);
                if let Some(&d) = self.key_to_desc.get(k) {
                    if remaining.remove(&d) {
                        p.from_prior.insert(d);
                    }
                }
            }
            for c in &self.src_chunks {
                let k = &self.parsed.dict.descs[c.desc].checksum;
                if at.contains_key(&(c.off, k.clone())) {
                    p.in_place.push((c.off, c.len));
                }
            }
        }
        for s in seeds {
            let mut got = BTreeSet::new();
            for (_, _, k) in self.scan(s) {
                if let Some(&d) = self.key_to_desc.get(&k) {
                    if remaining.remove(&d) {
                        got.insert(d);
                    }
                }
            }
            p.from_seeds.push(got);
        }
        p.fetch = remaining.into_iter().collect();
        p.fetch_ranges = p.fetch.iter().map(|&i| self.desc_abs(i)).collect();
        p.requests = self.runs(&p.fetch);
        let fetched: BTreeSet<usize> = p.fetch.iter().copied().collect();
        p.reused_bytes = self
            .src_chunks
            .iter()
            .filter(|c| !fetched.contains(&c.desc))
            .map(|c| c.len as u64)
            .sum();
        p
    }

    /// True if two distinct source chunks, or a source chunk and a chunk of any of
    /// the given streams with different content, share a truncated hash: such a
    /// case is outside the properties' assumptions and is dropped as inconclusive.
    pub fn has_collision(&self, source: &[u8], streams: &[&[u8]]) -> bool {
        let mut seen: HashMap<Vec<u8>, [u8; 64]> = HashMap::new();
        for c in &self.src_chunks {
            let data = &source[c.off as usize..c.off as usize + c.len];
            let full = b2(data);
            let k = full[..self.hash_len.min(64)].to_vec();
            if let Some(prev) = seen.insert(k, full) {
                if prev != full {
                    return true;
                }
            }
        }
        for s in streams {
            for (o, l) in r1::chunk(&self.cfg, s) {
                let full = b2(&s[o..o + l]);
                let k = full[..self.hash_len.min(64)].to_vec();
                if let Some(prev) = seen.get(&k) {
                    if *prev != full {
                        return true;
                    }
                }
            }
        }
        false
    }
}
