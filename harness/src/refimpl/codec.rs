//! R2 — independent archive codec written from bitar/src/header.rs' layout table and
//! bitar/proto/chunk_dictionary.proto. No prost, no bitar types.
//!
//! Layout: magic(6) | dictionary size u64 LE | dictionary (protobuf) |
//!         chunk data offset u64 LE | Blake2b-512 of everything before | ... chunk data
use crate::util::b2;

pub const MAGIC: &[u8; 6] = b"BITA1\0";
pub const MAGIC_LEGACY: &[u8; 6] = b"\0BITA1";

#[derive(Clone, Debug, Default, PartialEq, Eq)]
pub struct Desc {
    pub checksum: Vec<u8>,
    pub archive_size: u32,
    pub archive_offset: u64,
    pub source_size: u32,
}

#[derive(Clone, Debug, Default, PartialEq, Eq)]
pub struct Params {
    pub filter_bits: u32,
    pub min: u32,
    pub max: u32,
    pub window: u32,
    pub hash_len: u32,
    /// 0 BUZHASH, 1 ROLLSUM, 2 FIXED_SIZE
    pub algo: u32,
}

#[derive(Clone, Debug, Default, PartialEq, Eq)]
pub struct Dict {
    pub app_version: String,
    pub source_checksum: Vec<u8>,
    pub source_total_size: u64,
    pub params: Option<Params>,
    /// (type: 0 NONE 1 LZMA 2 ZSTD 3 BROTLI, level)
    pub compression: Option<(u32, u32)>,
    pub rebuild_order: Vec<u32>,
    pub descs: Vec<Desc>,
    pub metadata: Vec<(String, Vec<u8>)>,
    pub unknown_fields: usize,
}

#[derive(Clone, Debug)]
pub struct Parsed {
    pub magic: [u8; 6],
    pub dict_size: u64,
    pub dict: Dict,
    pub chunk_data_offset: u64,
    pub header_checksum: [u8; 64],
    pub header_len: usize,
}

// ----------------------------------------------------------------------------
// protobuf wire format

pub struct Reader<'a> {
    b: &'a [u8],
    p: usize,
}

impl<'a> Reader<'a> {
    pub fn new(b: &'a [u8]) -> Self {
        Reader { b, p: 0 }
    }
    pub fn done(&self) -> bool {
        self.p >= self.b.len()
    }
    pub fn varint(&mut self) -> Result<u64, String> {
        let mut v: u64 = 0;
        for i in 0..10 {
            let byte = *self.b.get(self.p).ok_or("truncated varint")?;
            self.p += 1;
            if i == 9 && byte > 1 {
                return Err("varint overflows 64 bits".into());
            }
            v |= ((byte & 0x7f) as u64) << (7 * i);
            if byte & 0x80 == 0 {
                return Ok(v);
            }
        }
        Err("varint too long".into())
    }
    pub fn bytes(&mut self, n: usize) -> Result<&'a [u8], String> {
        if self.p + n > self.b.len() {
            return Err("truncated field".into());
        }
        let s = &self.b[self.p..self.p + n];
        self.p += n;
        Ok(s)
    }
    pub fn len_delimited(&mut self) -> Result<&'a [u8], String> {
        let n = self.varint()? as usize;
        self.bytes(n)
    }
    /// (field number, wire type)
    pub fn tag(&mut self) -> Result<(u32, u8), String> {
        let t = self.varint()?;
        let f = (t >> 3) as u32;
        if f == 0 {
            return Err("field number 0".into());
        }
        Ok((f, (t & 7) as u8))
    }
    pub fn skip(&mut self, wt: u8) -> Result<(), String> {
        match wt {
            0 => {
                self.varint()?;
            }
            1 => {
                self.bytes(8)?;
            }
            2 => {
                self.len_delimited()?;
            }
            5 => {
                self.bytes(4)?;
            }
            _ => return Err(format!("unsupported wire type {}", wt)),
        }
        Ok(())
    }
}

pub fn put_varint(out: &mut Vec<u8>, mut v: u64) {
    loop {
        let b = (v & 0x7f) as u8;
        v >>= 7;
        if v == 0 {
            out.push(b);
            return;
        }
        out.push(b | 0x80);
    }
}
pub fn put_tag(out: &mut Vec<u8>, field: u32, wt: u8) {
    put_varint(out, ((field as u64) << 3) | wt as u64);
}
pub fn put_uint(out: &mut Vec<u8>, field: u32, v: u64) {
    put_tag(out, field, 0);
    put_varint(out, v);
}
pub fn put_bytes(out: &mut Vec<u8>, field: u32, b: &[u8]) {
    put_tag(out, field, 2);
    put_varint(out, b.len() as u64);
    out.extend_from_slice(b);
}

fn expect_wt(field: u32, wt: u8, want: u8, msg: &str) -> Result<(), String> {
    if wt != want {
        Err(format!("{} field {} has wire type {} (expected {})", msg, field, wt, want))
    } else {
        Ok(())
    }
}

fn u32_of(v: u64, what: &str) -> Result<u32, String> {
    // proto3 parsers truncate; a conforming writer never emits more than 32 bits.
    if v > u32::MAX as u64 {
        return Err(format!("{} does not fit uint32", what));
    }
    Ok(v as u32)
}

fn parse_desc(b: &[u8], unknown: &mut usize) -> Result<Desc, String> {
    let mut r = Reader::new(b);
    let mut d = Desc::default();
    while !r.done() {
        let (f, wt) = r.tag()?;
        match f {
            1 => {
                expect_wt(f, wt, 2, "ChunkDescriptor")?;
                d.checksum = r.len_delimited()?.to_vec();
            }
            3 => {
                expect_wt(f, wt, 0, "ChunkDescriptor")?;
                d.archive_size = u32_of(r.varint()?, "archive_size")?;
            }
            4 => {
                expect_wt(f, wt, 0, "ChunkDescriptor")?;
                d.archive_offset = r.varint()?;
            }
            5 => {
                expect_wt(f, wt, 0, "ChunkDescriptor")?;
                d.source_size = u32_of(r.varint()?, "source_size")?;
            }
            _ => {
                *unknown += 1;
                r.skip(wt)?;
            }
        }
    }
    Ok(d)
}

fn parse_params(b: &[u8], p: &mut Params, unknown: &mut usize) -> Result<(), String> {
    let mut r = Reader::new(b);
    while !r.done() {
        let (f, wt) = r.tag()?;
        if (1..=6).contains(&f) {
            expect_wt(f, wt, 0, "ChunkerParameters")?;
            let v = r.varint()?;
            match f {
                1 => p.filter_bits = u32_of(v, "chunk_filter_bits")?,
                2 => p.min = u32_of(v, "min_chunk_size")?,
                3 => p.max = u32_of(v, "max_chunk_size")?,
                4 => p.window = u32_of(v, "rolling_hash_window_size")?,
                5 => p.hash_len = u32_of(v, "chunk_hash_length")?,
                _ => p.algo = v as u32,
            }
        } else {
            *unknown += 1;
            r.skip(wt)?;
        }
    }
    Ok(())
}

fn parse_compression(b: &[u8], c: &mut (u32, u32), unknown: &mut usize) -> Result<(), String> {
    let mut r = Reader::new(b);
    while !r.done() {
        let (f, wt) = r.tag()?;
        match f {
            2 => {
                expect_wt(f, wt, 0, "ChunkCompression")?;
                c.0 = r.varint()? as u32;
            }
            3 => {
                expect_wt(f, wt, 0, "ChunkCompression")?;
                c.1 = u32_of(r.varint()?, "compression_level")?;
            }
            _ => {
                *unknown += 1;
                r.skip(wt)?;
            }
        }
    }
    Ok(())
}

fn parse_map_entry(b: &[u8], unknown: &mut usize) -> Result<(String, Vec<u8>), String> {
    let mut r = Reader::new(b);
    let mut k = String::new();
    let mut v = Vec::new();
    while !r.done() {
        let (f, wt) = r.tag()?;
        match f {
            1 => {
                expect_wt(f, wt, 2, "metadata entry")?;
                k = String::from_utf8(r.len_delimited()?.to_vec())
                    .map_err(|_| "metadata key is not UTF-8".to_string())?;
            }
            2 => {
                expect_wt(f, wt, 2, "metadata entry")?;
                v = r.len_delimited()?.to_vec();
            }
            _ => {
                *unknown += 1;
                r.skip(wt)?;
            }
        }
    }
    Ok((k, v))
}

pub fn parse_dict(b: &[u8]) -> Result<Dict, String> {
    let mut r = Reader::new(b);
    let mut d = Dict::default();
    while !r.done() {
        let (f, wt) = r.tag()?;
        match f {
            1 => {
                expect_wt(f, wt, 2, "ChunkDictionary")?;
                d.app_version = String::from_utf8(r.len_delimited()?.to_vec())
                    .map_err(|_| "application_version is not UTF-8".to_string())?;
            }
            2 => {
                expect_wt(f, wt, 2, "ChunkDictionary")?;
                d.source_checksum = r.len_delimited()?.to_vec();
            }
            3 => {
                expect_wt(f, wt, 0, "ChunkDictionary")?;
                d.source_total_size = r.varint()?;
            }
            4 => {
                expect_wt(f, wt, 2, "ChunkDictionary")?;
                let sub = r.len_delimited()?;
                let mut p = d.params.take().unwrap_or_default();
                parse_params(sub, &mut p, &mut d.unknown_fields)?;
                d.params = Some(p);
            }
            5 => {
                expect_wt(f, wt, 2, "ChunkDictionary")?;
                let sub = r.len_delimited()?;
                let mut c = d.compression.take().unwrap_or((0, 0));
                parse_compression(sub, &mut c, &mut d.unknown_fields)?;
                d.compression = Some(c);
            }
            6 => {
                if wt == 2 {
                    let packed = r.len_delimited()?;
                    let mut pr = Reader::new(packed);
                    while !pr.done() {
                        d.rebuild_order.push(u32_of(pr.varint()?, "rebuild_order")?);
                    }
                } else if wt == 0 {
                    d.rebuild_order.push(u32_of(r.varint()?, "rebuild_order")?);
                } else {
                    return Err(format!("rebuild_order has wire type {}", wt));
                }
            }
            7 => {
                expect_wt(f, wt, 2, "ChunkDictionary")?;
                let sub = r.len_delimited()?;
                let desc = parse_desc(sub, &mut d.unknown_fields)?;
                d.descs.push(desc);
            }
            8 => {
                expect_wt(f, wt, 2, "ChunkDictionary")?;
                let sub = r.len_delimited()?;
                let (k, v) = parse_map_entry(sub, &mut d.unknown_fields)?;
                if let Some(e) = d.metadata.iter_mut().find(|e| e.0 == k) {
                    e.1 = v;
                } else {
                    d.metadata.push((k, v));
                }
            }
            _ => {
                d.unknown_fields += 1;
                r.skip(wt)?;
            }
        }
    }
    Ok(d)
}

/// Parse the header of an archive. Verifies magic, sizes and the header checksum.
pub fn parse_archive(bytes: &[u8]) -> Result<Parsed, String> {
    if bytes.len() < 14 {
        return Err("shorter than the pre-header".into());
    }
    let mut magic = [0u8; 6];
    magic.copy_from_slice(&bytes[..6]);
    if &magic != MAGIC && &magic != MAGIC_LEGACY {
        return Err("bad magic".into());
    }
    let dict_size = u64::from_le_bytes(bytes[6..14].try_into().unwrap());
    let header_len = (14u64)
        .checked_add(dict_size)
        .and_then(|x| x.checked_add(8 + 64))
        .ok_or("dictionary size overflows")?;
    if header_len > bytes.len() as u64 {
        return Err(format!(
            "header ({} bytes) extends past the end of the file ({} bytes)",
            header_len,
            bytes.len()
        ));
    }
    let header_len = header_len as usize;
    let dend = 14 + dict_size as usize;
    let chunk_data_offset = u64::from_le_bytes(bytes[dend..dend + 8].try_into().unwrap());
    let mut header_checksum = [0u8; 64];
    header_checksum.copy_from_slice(&bytes[dend + 8..dend + 72]);
    if b2(&bytes[..dend + 8]) != header_checksum {
        return Err("header checksum mismatch".into());
    }
    let dict = parse_dict(&bytes[14..dend])?;
    Ok(Parsed {
        magic,
        dict_size,
        dict,
        chunk_data_offset,
        header_checksum,
        header_len,
    })
}

// ----------------------------------------------------------------------------
// payload codecs, used directly (not through bitar)

pub fn decompress(ctype: u32, data: &[u8]) -> Result<Vec<u8>, String> {
    match ctype {
        0 => Ok(data.to_vec()),
        1 => lzma::decompress(data).map_err(|e| format!("lzma: {:?}", e)),
        2 => zstd::stream::decode_all(data).map_err(|e| format!("zstd: {}", e)),
        3 => {
            let mut out = Vec::new();
            let mut inp = data;
            brotli_decompressor::BrotliDecompress(&mut inp, &mut out)
                .map_err(|e| format!("brotli: {}", e))?;
            Ok(out)
        }
        _ => Err(format!("unknown compression type {}", ctype)),
    }
}

pub fn compress(ctype: u32, level: u32, data: &[u8]) -> Result<Vec<u8>, String> {
    match ctype {
        0 => Ok(data.to_vec()),
        1 => lzma::compress(data, level).map_err(|e| format!("lzma: {:?}", e)),
        2 => zstd::stream::encode_all(data, level as i32).map_err(|e| format!("zstd: {}", e)),
        3 => {
            let mut out = Vec::new();
            let params = brotli::enc::BrotliEncoderParams {
                quality: level as i32,
                ..Default::default()
            };
            let mut inp = data;
            brotli::BrotliCompress(&mut inp, &mut out, &params)
                .map_err(|e| format!("brotli: {}", e))?;
            Ok(out)
        }
        _ => Err(format!("unknown compression type {}", ctype)),
    }
}

/// Decode the stored bytes of one descriptor (raw iff stored size == source size).
pub fn chunk_of(p: &Parsed, bytes: &[u8], d: &Desc) -> Result<Vec<u8>, String> {
    let start = p
        .chunk_data_offset
        .checked_add(d.archive_offset)
        .ok_or("chunk offset overflows")?;
    let end = start
        .checked_add(d.archive_size as u64)
        .ok_or("chunk end overflows")?;
    if end > bytes.len() as u64 {
        return Err(format!(
            "chunk data {}..{} past the end of the file ({})",
            start,
            end,
            bytes.len()
        ));
    }
    let stored = &bytes[start as usize..end as usize];
    let ctype = p.dict.compression.map(|c| c.0).unwrap_or(0);
    let raw = if d.archive_size == d.source_size {
        stored.to_vec()
    } else {
        decompress(ctype, stored)?
    };
    if raw.len() != d.source_size as usize {
        return Err(format!(
            "chunk decodes to {} bytes, descriptor says {}",
            raw.len(),
            d.source_size
        ));
    }
    let h = b2(&raw);
    if d.checksum.len() > 64 || h[..d.checksum.len()] != d.checksum[..] {
        return Err("chunk hash mismatch".into());
    }
    Ok(raw)
}

/// Rebuild the source described by an archive, independently of bitar.
pub fn reconstruct(p: &Parsed, bytes: &[u8]) -> Result<Vec<u8>, String> {
    let mut chunks: Vec<Option<Vec<u8>>> = vec![None; p.dict.descs.len()];
    let mut out = Vec::with_capacity(p.dict.source_total_size as usize);
    for &i in &p.dict.rebuild_order {
        let i = i as usize;
        if i >= p.dict.descs.len() {
            return Err(format!("rebuild index {} out of range", i));
        }
        if chunks[i].is_none() {
            chunks[i] = Some(chunk_of(p, bytes, &p.dict.descs[i])?);
        }
        out.extend_from_slice(chunks[i].as_ref().unwrap());
    }
    Ok(out)
}

/// What the writer was asked to produce, for the conformance check.
#[derive(Clone, Debug)]
pub struct Expect<'a> {
    pub source: &'a [u8],
    /// Expected chunking of the source (offset, len) from R1.
    pub chunks: &'a [(usize, usize)],
    pub params: Params,
    pub compression: (u32, u32),
    pub metadata: Vec<(String, Vec<u8>)>,
}

/// Strict conformance check of an archive written by bita (C11).
pub fn strict_check(bytes: &[u8], ex: &Expect) -> Result<Parsed, String> {
    let p = parse_archive(bytes)?;
    if &p.magic != MAGIC {
        return Err("writer must use the current magic".into());
    }
    if p.chunk_data_offset != p.header_len as u64 {
        return Err(format!(
            "chunk data offset {} != header length {}",
            p.chunk_data_offset, p.header_len
        ));
    }
    let d = &p.dict;
    let params = d.params.as_ref().ok_or("chunker parameters missing")?;
    if *params != ex.params {
        return Err(format!(
            "recorded chunker parameters {:?} != requested {:?}",
            params, ex.params
        ));
    }
    let comp = d.compression.ok_or("compression message missing")?;
    if comp != ex.compression {
        return Err(format!(
            "recorded compression {:?} != requested {:?}",
            comp, ex.compression
        ));
    }
    let hl = params.hash_len as usize;
    // Source size and checksum.
    if d.source_total_size != ex.source.len() as u64 {
        return Err(format!(
            "recorded source size {} != {}",
            d.source_total_size,
            ex.source.len()
        ));
    }
    if d.source_checksum[..] != b2(ex.source)[..] {
        return Err("recorded source checksum is not Blake2b-512 of the source".into());
    }
    // Descriptors: unique by hash, back-to-back, in order of first occurrence.
    let mut first_seen: Vec<Vec<u8>> = Vec::new();
    let mut order_expected: Vec<u32> = Vec::new();
    let mut index_of: std::collections::HashMap<Vec<u8>, u32> = std::collections::HashMap::new();
    for &(o, l) in ex.chunks {
        let h = b2(&ex.source[o..o + l]);
        // Uniqueness is decided on the full hash (as the writer does), stored truncated.
        let key = h.to_vec();
        let idx = *index_of.entry(key).or_insert_with(|| {
            first_seen.push(h[..hl.min(64)].to_vec());
            (first_seen.len() - 1) as u32
        });
        order_expected.push(idx);
    }
    if d.descs.len() != first_seen.len() {
        return Err(format!(
            "{} descriptors, expected {} unique chunks",
            d.descs.len(),
            first_seen.len()
        ));
    }
    if d.rebuild_order != order_expected {
        return Err("rebuild order differs from the order of chunks in the source".into());
    }
    let mut off = 0u64;
    let mut seen = std::collections::HashSet::new();
    let mut sizes: Vec<usize> = vec![0; d.descs.len()];
    for &(o, l) in ex.chunks {
        let _ = o;
        let _ = l;
    }
    for (i, (desc, want_hash)) in d.descs.iter().zip(first_seen.iter()).enumerate() {
        if desc.checksum != *want_hash {
            return Err(format!(
                "descriptor {} hash is not the (truncated) Blake2 of the {}-th distinct chunk",
                i, i
            ));
        }
        if desc.checksum.len() != hl {
            return Err(format!("descriptor {} hash length {} != {}", i, desc.checksum.len(), hl));
        }
        if !seen.insert(desc.checksum.clone()) {
            return Err(format!("descriptor {} duplicates an earlier hash", i));
        }
        if desc.archive_offset != off {
            return Err(format!(
                "descriptor {} at archive offset {}, expected {} (back-to-back)",
                i, desc.archive_offset, off
            ));
        }
        if desc.archive_size > desc.source_size {
            return Err(format!(
                "descriptor {} stored size {} exceeds source size {}",
                i, desc.archive_size, desc.source_size
            ));
        }
        if desc.archive_size == 0 {
            return Err(format!("descriptor {} stores zero bytes", i));
        }
        off += desc.archive_size as u64;
        sizes[i] = desc.source_size as usize;
        // Payload decodes to a chunk with that hash.
        chunk_of(&p, bytes, desc).map_err(|e| format!("descriptor {}: {}", i, e))?;
    }
    let total: u64 = d.rebuild_order.iter().map(|&i| sizes[i as usize] as u64).sum();
    if total != d.source_total_size {
        return Err("chunk sizes in rebuild order do not sum to the source size".into());
    }
    // File ends exactly at the end of the last stored chunk.
    let end = p.chunk_data_offset + off;
    if bytes.len() as u64 != end {
        return Err(format!(
            "file length {} != end of last stored chunk {}",
            bytes.len(),
            end
        ));
    }
    // Metadata verbatim.
    let mut got = d.metadata.clone();
    got.sort();
    let mut want = ex.metadata.clone();
    want.sort();
    if got != want {
        return Err(format!(
            "metadata {:?} != requested {:?}",
            got.iter().map(|(k, v)| (k.clone(), v.len())).collect::<Vec<_>>(),
            want.iter().map(|(k, v)| (k.clone(), v.len())).collect::<Vec<_>>()
        ));
    }
    // And the archive reconstructs to the source.
    let rebuilt = reconstruct(&p, bytes)?;
    if rebuilt != ex.source {
        return Err("archive does not reconstruct to the source".into());
    }
    Ok(p)
}

// ----------------------------------------------------------------------------
// encoder (C17, C15)

#[derive(Clone, Debug)]
pub struct EncStyle {
    pub legacy_magic: bool,
    /// Encode rebuild_order unpacked (one varint field per element).
    pub unpacked_order: bool,
    /// Emit unknown fields (wire types 0,1,2,5) at each message level.
    pub unknown_fields: bool,
    /// Emit default-valued scalar fields explicitly.
    pub explicit_defaults: bool,
    /// Field order of the top-level message reversed.
    pub reverse_fields: bool,
    pub seed: u64,
}

impl Default for EncStyle {
    fn default() -> Self {
        EncStyle {
            legacy_magic: false,
            unpacked_order: false,
            unknown_fields: false,
            explicit_defaults: false,
            reverse_fields: false,
            seed: 0,
        }
    }
}

fn unknown_blob(out: &mut Vec<u8>, rng: &mut crate::util::Rng, base_field: u32) {
    match rng.below(4) {
        0 => put_uint(out, base_field, rng.next_u64()),
        1 => {
            put_tag(out, base_field + 1, 1);
            out.extend_from_slice(&rng.next_u64().to_le_bytes());
        }
        2 => {
            let n = rng.urange(0, 20);
            let b = rng.bytes(n);
            put_bytes(out, base_field + 2, &b);
        }
        _ => {
            put_tag(out, base_field + 3, 5);
            out.extend_from_slice(&(rng.next_u64() as u32).to_le_bytes());
        }
    }
}

pub fn encode_desc(d: &Desc, st: &EncStyle, rng: &mut crate::util::Rng) -> Vec<u8> {
    let mut o = Vec::new();
    if st.unknown_fields && rng.chance(1, 3) {
        unknown_blob(&mut o, rng, 20);
    }
    if !d.checksum.is_empty() || st.explicit_defaults {
        put_bytes(&mut o, 1, &d.checksum);
    }
    if d.archive_size != 0 || st.explicit_defaults {
        put_uint(&mut o, 3, d.archive_size as u64);
    }
    if d.archive_offset != 0 || st.explicit_defaults {
        put_uint(&mut o, 4, d.archive_offset);
    }
    if d.source_size != 0 || st.explicit_defaults {
        put_uint(&mut o, 5, d.source_size as u64);
    }
    if st.unknown_fields && rng.chance(1, 3) {
        unknown_blob(&mut o, rng, 30);
    }
    o
}

pub fn encode_params(p: &Params, st: &EncStyle, rng: &mut crate::util::Rng) -> Vec<u8> {
    let mut o = Vec::new();
    let vals = [p.filter_bits, p.min, p.max, p.window, p.hash_len, p.algo];
    for (i, v) in vals.iter().enumerate() {
        if *v != 0 || st.explicit_defaults {
            put_uint(&mut o, i as u32 + 1, *v as u64);
        }
    }
    if st.unknown_fields {
        unknown_blob(&mut o, rng, 40);
    }
    o
}

pub fn encode_compression(c: (u32, u32), st: &EncStyle, rng: &mut crate::util::Rng) -> Vec<u8> {
    let mut o = Vec::new();
    if st.unknown_fields && rng.chance(1, 2) {
        unknown_blob(&mut o, rng, 50);
    }
    if c.0 != 0 || st.explicit_defaults {
        put_uint(&mut o, 2, c.0 as u64);
    }
    if c.1 != 0 || st.explicit_defaults {
        put_uint(&mut o, 3, c.1 as u64);
    }
    o
}

pub fn encode_dict(d: &Dict, st: &EncStyle) -> Vec<u8> {
    let mut rng = crate::util::Rng::new(st.seed ^ 0xe0c0de);
    let mut parts: Vec<Vec<u8>> = Vec::new();
    let mut o = Vec::new();
    if !d.app_version.is_empty() || st.explicit_defaults {
        put_bytes(&mut o, 1, d.app_version.as_bytes());
    }
    parts.push(std::mem::take(&mut o));
    if !d.source_checksum.is_empty() || st.explicit_defaults {
        put_bytes(&mut o, 2, &d.source_checksum);
    }
    parts.push(std::mem::take(&mut o));
    if d.source_total_size != 0 || st.explicit_defaults {
        put_uint(&mut o, 3, d.source_total_size);
    }
    parts.push(std::mem::take(&mut o));
    if let Some(p) = &d.params {
        put_bytes(&mut o, 4, &encode_params(p, st, &mut rng));
    }
    parts.push(std::mem::take(&mut o));
    if let Some(c) = d.compression {
        put_bytes(&mut o, 5, &encode_compression(c, st, &mut rng));
    }
    parts.push(std::mem::take(&mut o));
    if !d.rebuild_order.is_empty() {
        if st.unpacked_order {
            for &i in &d.rebuild_order {
                put_uint(&mut o, 6, i as u64);
            }
        } else {
            let mut packed = Vec::new();
            for &i in &d.rebuild_order {
                put_varint(&mut packed, i as u64);
            }
            put_bytes(&mut o, 6, &packed);
        }
    }
    parts.push(std::mem::take(&mut o));
    for desc in &d.descs {
        put_bytes(&mut o, 7, &encode_desc(desc, st, &mut rng));
    }
    parts.push(std::mem::take(&mut o));
    for (k, v) in &d.metadata {
        let mut e = Vec::new();
        put_bytes(&mut e, 1, k.as_bytes());
        put_bytes(&mut e, 2, v);
        put_bytes(&mut o, 8, &e);
    }
    parts.push(std::mem::take(&mut o));
    if st.unknown_fields {
        let mut u = Vec::new();
        unknown_blob(&mut u, &mut rng, 100);
        parts.insert(rng.usize_below(parts.len() + 1), u);
        let mut u = Vec::new();
        unknown_blob(&mut u, &mut rng, 2000);
        parts.push(u);
    }
    if st.reverse_fields {
        parts.reverse();
    }
    parts.concat()
}

/// Assemble header bytes for a dictionary; `chunk_data_offset` None = header end.
pub fn build_header(dict_bytes: &[u8], legacy_magic: bool, chunk_data_offset: Option<u64>) -> Vec<u8> {
    let mut h = Vec::new();
    h.extend_from_slice(if legacy_magic { MAGIC_LEGACY } else { MAGIC });
    h.extend_from_slice(&(dict_bytes.len() as u64).to_le_bytes());
    h.extend_from_slice(dict_bytes);
    let off = chunk_data_offset.unwrap_or(h.len() as u64 + 8 + 64);
    h.extend_from_slice(&off.to_le_bytes());
    let sum = b2(&h);
    h.extend_from_slice(&sum);
    h
}

pub fn self_test() -> Result<(), String> {
    // varint round trip
    for v in [0u64, 1, 127, 128, 300, u32::MAX as u64, u64::MAX] {
        let mut b = Vec::new();
        put_varint(&mut b, v);
        if Reader::new(&b).varint()? != v {
            return Err("varint round trip".into());
        }
    }
    // Known-answer: Blake2b-512 of the empty string.
    let e = crate::util::hex(&b2(b""));
    if !e.starts_with("786a02f742015903c6c6fd852552d272912f4740e15847618a86e217f71f5419") {
        return Err("blake2b-512 known answer".into());
    }
    // dict round trip through our own encoder/decoder, all styles
    let d = Dict {
        app_version: "x".into(),
        source_checksum: vec![1, 2, 3],
        source_total_size: 77,
        params: Some(Params { filter_bits: 3, min: 0, max: 9, window: 2, hash_len: 64, algo: 1 }),
        compression: Some((3, 6)),
        rebuild_order: vec![0, 1, 0, 300],
        descs: vec![Desc { checksum: vec![9; 8], archive_size: 4, archive_offset: 0, source_size: 5 }],
        metadata: vec![("k".into(), vec![0, 255])],
        unknown_fields: 0,
    };
    for bits in 0..16u32 {
        let st = EncStyle {
            legacy_magic: false,
            unpacked_order: bits & 1 != 0,
            unknown_fields: bits & 2 != 0,
            explicit_defaults: bits & 4 != 0,
            reverse_fields: bits & 8 != 0,
            seed: bits as u64,
        };
        let enc = encode_dict(&d, &st);
        let mut back = parse_dict(&enc)?;
        back.unknown_fields = 0;
        if back != d {
            return Err(format!("dict round trip failed for style {:?}", st));
        }
    }
    // compress/decompress round trip per codec
    let data = vec![7u8; 500];
    for (t, l) in [(1u32, 3u32), (2, 3), (3, 5)] {
        let c = compress(t, l, &data)?;
        if decompress(t, &c)? != data {
            return Err(format!("codec {} round trip", t));
        }
    }
    Ok(())
}
