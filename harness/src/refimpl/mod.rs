pub mod buztable;
pub mod chunker;
pub mod codec;
pub mod enc;
pub mod model;
