pub mod buztable;
pub mod chunker;
