pub mod buztable;
pub mod chunker;
pub mod codec;
pub mod model;
