//! R1 — independent, position-based reference chunker.
//!
//! No rolling state: the hash tested at a candidate cut is a closed-form function
//! of the trailing `window` bytes of the *stream* (the implementation never resets
//! its hasher between chunks), evaluated either directly (O(window), used for
//! small inputs and to cross-check) or through prefix arrays (O(1) per position).
//!
//! Rule (from the statement of C09): from chunk start `c`, cut at the smallest
//! `L in [max(min,1), max]` such that `H(window ending at c+L) & mask == mask`,
//! else at `max`, else (input exhausted) the tail.
//!
//! Stream-start conventions (taken from the code, documented in DESIGN.md §4.5):
//! RollSum treats the bytes before the stream as zeros; BuzHash performs no
//! test until `window + 1` bytes of the stream have been consumed.
use super::buztable::{BUZ_SEED, BUZ_TABLE};

#[derive(Clone, Copy, Debug, PartialEq, Eq, Hash)]
pub enum Algo {
    Fixed,
    RollSum,
    BuzHash,
}

#[derive(Clone, Copy, Debug, PartialEq, Eq, Hash)]
pub struct Cfg {
    pub algo: Algo,
    pub window: usize,
    pub min: usize,
    /// Max chunk size; the fixed size for `Algo::Fixed`.
    pub max: usize,
    pub bits: u32,
}

impl Cfg {
    pub fn fixed(n: usize) -> Self {
        Cfg {
            algo: Algo::Fixed,
            window: 0,
            min: 0,
            max: n,
            bits: 0,
        }
    }
    pub fn valid(&self) -> bool {
        match self.algo {
            Algo::Fixed => self.max >= 1,
            _ => {
                self.window >= 1
                    && self.min <= self.max
                    && self.window <= self.max
                    && self.max >= 1
                    && (1..=24).contains(&self.bits)
            }
        }
    }
    pub fn mask(&self) -> u32 {
        if self.bits == 0 {
            0
        } else {
            (1u64 << self.bits).wrapping_sub(1) as u32
        }
    }
    pub fn describe(&self) -> String {
        match self.algo {
            Algo::Fixed => format!("fixed({})", self.max),
            Algo::RollSum => format!(
                "rollsum(w={},min={},max={},bits={})",
                self.window, self.min, self.max, self.bits
            ),
            Algo::BuzHash => format!(
                "buzhash(w={},min={},max={},bits={})",
                self.window, self.min, self.max, self.bits
            ),
        }
    }
}

/// Direct evaluation of RollSum over the window ending at `end` (exclusive).
pub fn rollsum_direct(data: &[u8], end: usize, w: usize) -> u32 {
    let mut s1: u32 = (31u32).wrapping_mul(w as u32);
    let mut s2: u32 = (31u32).wrapping_mul(w as u32).wrapping_mul((w as u32).wrapping_sub(1));
    for i in 0..w {
        // i = 0 is the oldest byte of the window; absolute position end - w + i.
        let pos = end as i64 - w as i64 + i as i64;
        let x = if pos < 0 { 0 } else { data[pos as usize] as u32 };
        s1 = s1.wrapping_add(x);
        s2 = s2.wrapping_add(((w - i) as u32).wrapping_mul(x));
    }
    (s1 << 16) | (s2 & 0xffff)
}

/// Direct evaluation of BuzHash over the window ending at `end`; requires end >= w.
pub fn buzhash_direct(data: &[u8], end: usize, w: usize) -> u32 {
    let mut h = 0u32;
    for i in 0..w {
        let x = data[end - w + i];
        let t = BUZ_TABLE[x as usize] ^ BUZ_SEED;
        h ^= t.rotate_left(((w - 1 - i) % 32) as u32);
    }
    h
}

/// Prefix arrays giving O(1) window hashes.
pub struct Prefix {
    algo: Algo,
    w: usize,
    a: Vec<u64>, // RollSum: prefix sums of x; BuzHash: prefix xor of rotl(T[x_j], -j)
    b: Vec<u64>, // RollSum: prefix sums of p * x_p
}

impl Prefix {
    pub fn new(algo: Algo, w: usize, data: &[u8]) -> Self {
        let n = data.len();
        let mut a = Vec::with_capacity(n + 1);
        let mut b = Vec::new();
        match algo {
            Algo::RollSum => {
                b.reserve(n + 1);
                let (mut sa, mut sb) = (0u64, 0u64);
                a.push(0);
                b.push(0);
                for (p, &x) in data.iter().enumerate() {
                    sa = sa.wrapping_add(x as u64);
                    sb = sb.wrapping_add((p as u64).wrapping_mul(x as u64));
                    a.push(sa);
                    b.push(sb);
                }
            }
            Algo::BuzHash => {
                let mut acc = 0u32;
                a.push(0);
                for (j, &x) in data.iter().enumerate() {
                    let t = BUZ_TABLE[x as usize] ^ BUZ_SEED;
                    acc ^= t.rotate_right((j % 32) as u32);
                    a.push(acc as u64);
                }
            }
            Algo::Fixed => {}
        }
        Prefix { algo, w, a, b }
    }
    /// Hash of the window ending at `end` (exclusive).
    pub fn hash(&self, end: usize) -> u32 {
        let w = self.w;
        match self.algo {
            Algo::RollSum => {
                let lo = end.saturating_sub(w);
                let sum_x = self.a[end].wrapping_sub(self.a[lo]);
                let sum_px = self.b[end].wrapping_sub(self.b[lo]);
                // Σ (end - p) x_p over the window; bytes before the stream are zero.
                let weighted = (end as u64).wrapping_mul(sum_x).wrapping_sub(sum_px);
                let s1 = (31u64.wrapping_mul(w as u64)).wrapping_add(sum_x) as u32;
                let s2 = (31u64
                    .wrapping_mul(w as u64)
                    .wrapping_mul((w as u64).wrapping_sub(1)))
                .wrapping_add(weighted) as u32;
                (s1 << 16) | (s2 & 0xffff)
            }
            Algo::BuzHash => {
                debug_assert!(end >= w);
                let x = (self.a[end] ^ self.a[end - w]) as u32;
                x.rotate_left(((end + 31) % 32) as u32) // (end - 1) mod 32
            }
            Algo::Fixed => 0,
        }
    }
}

/// Chunk boundaries (offset, len) of `data` under `cfg`, using prefix arrays.
pub fn chunk(cfg: &Cfg, data: &[u8]) -> Vec<(usize, usize)> {
    chunk_impl(cfg, data, false)
        .into_iter()
        .map(|(o, l, _)| (o, l))
        .collect()
}

/// Same as [`chunk`] but evaluating every window hash directly (O(n·w)).
pub fn chunk_direct(cfg: &Cfg, data: &[u8]) -> Vec<(usize, usize)> {
    chunk_impl(cfg, data, true)
        .into_iter()
        .map(|(o, l, _)| (o, l))
        .collect()
}

/// Reason a boundary was placed, for evidence.
#[derive(Clone, Copy, Debug, PartialEq, Eq)]
pub enum Cut {
    Hash,
    Max,
    Tail,
}

pub fn chunk_with_reasons(cfg: &Cfg, data: &[u8]) -> Vec<(usize, usize, Cut)> {
    chunk_impl(cfg, data, false)
}

fn chunk_impl(cfg: &Cfg, data: &[u8], direct: bool) -> Vec<(usize, usize, Cut)> {
    assert!(cfg.valid(), "invalid reference config {:?}", cfg);
    let n = data.len();
    let mut out = Vec::new();
    if cfg.algo == Algo::Fixed {
        let mut c = 0;
        while c < n {
            let l = cfg.max.min(n - c);
            out.push((c, l, if l == cfg.max { Cut::Max } else { Cut::Tail }));
            c += l;
        }
        return out;
    }
    let w = cfg.window;
    let mask = cfg.mask();
    let prefix = if direct {
        None
    } else {
        Some(Prefix::new(cfg.algo, w, data))
    };
    let hash_at = |end: usize| -> u32 {
        match (&prefix, cfg.algo) {
            (Some(p), _) => p.hash(end),
            (None, Algo::RollSum) => rollsum_direct(data, end, w),
            (None, Algo::BuzHash) => buzhash_direct(data, end, w),
            _ => unreachable!(),
        }
    };
    let lmin = cfg.min.max(1);
    let mut c = 0usize;
    while c < n {
        let mut cut = None;
        let mut l = lmin;
        while l <= cfg.max && c + l <= n {
            let end = c + l;
            let testable = match cfg.algo {
                // No test before window+1 bytes of the stream have been consumed.
                Algo::BuzHash => end >= w + 1,
                _ => true,
            };
            if testable && hash_at(end) & mask == mask {
                cut = Some(l);
                break;
            }
            l += 1;
        }
        let (len, why) = match cut {
            Some(l) => (l, Cut::Hash),
            None => {
                if c + cfg.max <= n {
                    (cfg.max, Cut::Max)
                } else {
                    (n - c, Cut::Tail)
                }
            }
        };
        out.push((c, len, why));
        c += len;
    }
    out
}

/// Self-check of the reference: prefix evaluation == direct evaluation.
pub fn self_test() -> Result<(), String> {
    let mut rng = crate::util::Rng::new(77);
    for case in 0..400 {
        let n = rng.urange(0, 300);
        let mut data = rng.bytes(n);
        if case % 3 == 0 {
            for b in data.iter_mut() {
                *b %= 3;
            }
        }
        let w = rng.urange(1, 40);
        let max = rng.urange(w, w + 60);
        let min = rng.urange(0, max);
        for algo in [Algo::RollSum, Algo::BuzHash] {
            let cfg = Cfg {
                algo,
                window: w,
                min,
                max,
                bits: rng.range(1, 5) as u32,
            };
            let a = chunk(&cfg, &data);
            let b = chunk_direct(&cfg, &data);
            if a != b {
                return Err(format!("R1 prefix/direct disagree for {:?} n={}", cfg, n));
            }
            let total: usize = a.iter().map(|x| x.1).sum();
            if total != n {
                return Err("R1 does not tile".into());
            }
        }
    }
    Ok(())
}
