//! Independent archive encoder (R2 writer side): produces any format-conforming
//! encoding of a source — used by C17 (reader must not depend on bita's own layout),
//! C07 (gapped / permuted archives) and C15 (field mutations under a valid checksum).
use super::chunker::{self as r1, Algo, Cfg};
use super::codec::{self, Desc, Dict, EncStyle, Params};
use crate::util::{b2, Rng};

#[derive(Clone, Copy, Debug, PartialEq, Eq)]
pub enum StoredOrder {
    AsDescriptors,
    Reversed,
    Shuffled,
}

#[derive(Clone, Debug)]
pub struct ArchiveSpec {
    pub cfg: Cfg,
    pub hash_len: usize,
    /// (type 0 NONE 1 LZMA 2 ZSTD 3 BROTLI, level)
    pub comp: (u32, u32),
    pub style: EncStyle,
    /// chunk_data_offset = header end + slack
    pub slack: usize,
    pub order: StoredOrder,
    /// Up to this many padding bytes before each stored chunk.
    pub max_pad: usize,
    /// Trailing garbage after the last stored chunk.
    pub trailing: usize,
    pub layout_seed: u64,
    /// Probability (n/8) that a compressible chunk is nevertheless stored raw.
    pub raw_share: u64,
    /// Probability (n/8) that a chunk whose compressed form is LARGER than the chunk is
    /// nevertheless stored compressed (the format only says: stored size == source size
    /// means raw; bita's own writer never does this, another tool may).
    pub keep_bigger_share: u64,
    /// An encoder that does not deduplicate: one descriptor and one stored copy per chunk
    /// OCCURRENCE (rebuild order 0, 1, 2, ...), so several descriptors share a checksum. The
    /// schema does not forbid it; bita's own writer never does it.
    pub no_dedup: bool,
    pub metadata: Vec<(String, Vec<u8>)>,
    pub app_version: String,
}

impl ArchiveSpec {
    pub fn plain(cfg: Cfg, hash_len: usize, comp: (u32, u32)) -> Self {
        ArchiveSpec {
            cfg,
            hash_len,
            comp,
            style: EncStyle::default(),
            slack: 0,
            order: StoredOrder::AsDescriptors,
            max_pad: 0,
            trailing: 0,
            layout_seed: 1,
            raw_share: 0,
            keep_bigger_share: 0,
            no_dedup: false,
            metadata: vec![],
            app_version: "r2-encoder".into(),
        }
    }
    pub fn describe(&self) -> String {
        format!(
            "{} hash={} comp={:?} legacy_magic={} unpacked={} unknown={} defaults={} reversed_fields={} slack={} order={:?} max_pad={} trailing={} raw_share={}/8 meta={}",
            self.cfg.describe(), self.hash_len, self.comp, self.style.legacy_magic, self.style.unpacked_order,
            self.style.unknown_fields, self.style.explicit_defaults, self.style.reverse_fields, self.slack,
            self.order, self.max_pad, self.trailing, self.raw_share, self.metadata.len()
        ) + &format!(" keep_bigger={}/8 no_dedup={}", self.keep_bigger_share, self.no_dedup)
    }
}

pub fn params_of(cfg: &Cfg, hash_len: usize) -> Params {
    match cfg.algo {
        Algo::Fixed => Params { filter_bits: 0, min: 0, max: cfg.max as u32, window: 0, hash_len: hash_len as u32, algo: 2 },
        a => Params {
            filter_bits: cfg.bits,
            min: cfg.min as u32,
            max: cfg.max as u32,
            window: cfg.window as u32,
            hash_len: hash_len as u32,
            algo: if a == Algo::BuzHash { 0 } else { 1 },
        },
    }
}

pub struct Encoded {
    pub bytes: Vec<u8>,
    pub dict: Dict,
    pub header_len: usize,
    pub chunk_data_offset: u64,
}

/// Encode `source` as a conforming archive according to `spec`.
pub fn encode_archive(source: &[u8], spec: &ArchiveSpec) -> Result<Encoded, String> {
    let mut rng = Rng::new(spec.layout_seed);
    let chunks = r1::chunk(&spec.cfg, source);
    let mut index: std::collections::HashMap<[u8; 64], u32> = std::collections::HashMap::new();
    let mut uniq: Vec<(usize, usize)> = Vec::new();
    let mut order: Vec<u32> = Vec::new();
    for &(o, l) in &chunks {
        let h = b2(&source[o..o + l]);
        let idx = if spec.no_dedup {
            uniq.push((o, l));
            (uniq.len() - 1) as u32
        } else {
            *index.entry(h).or_insert_with(|| {
                uniq.push((o, l));
                (uniq.len() - 1) as u32
            })
        };
        order.push(idx);
    }
    // Stored representation per unique chunk.
    let mut stored: Vec<Vec<u8>> = Vec::new();
    for &(o, l) in &uniq {
        let raw = &source[o..o + l];
        let mut use_raw = spec.comp.0 == 0 || rng.below(8) < spec.raw_share;
        let mut data = raw.to_vec();
        if !use_raw {
            let c = codec::compress(spec.comp.0, spec.comp.1, raw)?;
            // Never compressed with stored size equal to source size (the reader must
            // treat equal sizes as raw). Larger than the source is allowed by the format.
            if c.len() == raw.len() || (c.len() > raw.len() && rng.below(8) >= spec.keep_bigger_share) {
                use_raw = true;
            } else {
                data = c;
            }
        }
        let _ = use_raw;
        stored.push(data);
    }
    let mut positions: Vec<usize> = (0..uniq.len()).collect();
    match spec.order {
        StoredOrder::AsDescriptors => {}
        StoredOrder::Reversed => positions.reverse(),
        StoredOrder::Shuffled => rng.shuffle(&mut positions),
    }
    let mut body: Vec<u8> = Vec::new();
    let mut offsets = vec![0u64; uniq.len()];
    for &i in &positions {
        if spec.max_pad > 0 {
            let pad = rng.urange(0, spec.max_pad);
            body.extend(rng.bytes(pad));
        }
        offsets[i] = body.len() as u64;
        body.extend_from_slice(&stored[i]);
    }
    if spec.trailing > 0 {
        body.extend(rng.bytes(spec.trailing));
    }
    let descs: Vec<Desc> = uniq
        .iter()
        .enumerate()
        .map(|(i, &(o, l))| Desc {
            checksum: b2(&source[o..o + l])[..spec.hash_len.min(64)].to_vec(),
            archive_size: stored[i].len() as u32,
            archive_offset: offsets[i],
            source_size: l as u32,
        })
        .collect();
    let dict = Dict {
        app_version: spec.app_version.clone(),
        source_checksum: b2(source).to_vec(),
        source_total_size: source.len() as u64,
        params: Some(params_of(&spec.cfg, spec.hash_len)),
        compression: Some(spec.comp),
        rebuild_order: order,
        descs,
        metadata: spec.metadata.clone(),
        unknown_fields: 0,
    };
    let dict_bytes = codec::encode_dict(&dict, &spec.style);
    let header_len = 14 + dict_bytes.len() + 8 + 64;
    let cdo = (header_len + spec.slack) as u64;
    let mut bytes = codec::build_header(&dict_bytes, spec.style.legacy_magic, Some(cdo));
    debug_assert_eq!(bytes.len(), header_len);
    if spec.slack > 0 {
        bytes.extend(rng.bytes(spec.slack));
    }
    bytes.extend_from_slice(&body);
    Ok(Encoded {
        bytes,
        dict,
        header_len,
        chunk_data_offset: cdo,
    })
}

/// Assemble an archive from an explicit dictionary and body (for mutations).
pub fn assemble(dict: &Dict, style: &EncStyle, chunk_data_offset: Option<u64>, body: &[u8]) -> Vec<u8> {
    let dict_bytes = codec::encode_dict(dict, style);
    let mut bytes = codec::build_header(&dict_bytes, style.legacy_magic, chunk_data_offset);
    bytes.extend_from_slice(body);
    bytes
}
