//! Thorough-tier sanitizer slices: the Miri interpreter over small library workloads
//! (/verif/miri_slice) and valgrind memcheck over the release CLI.
use crate::evidence::Report;
use crate::util::{par_map, verif_root};
use serde_json::json;

/// Run `shards` Miri processes of one slice in parallel. Each must print
/// MIRI-SLICE-OK; an "Undefined Behavior" / data race report or a failed oracle is a
/// violation; a tool failure is inconclusive.
pub fn run_slices(rep: &Report, what: &str, shards: usize, n: usize, flags: &str) -> Vec<String> {
    let dir = verif_root().join("miri_slice");
    // Every copy of /verif builds into its own target directory and tells the build script
    // where it lives: artifacts (and cargo-miri's recorded working directory) of another
    // copy are never reused.
    let target_dir = verif_root().join(".build/miri");
    let target_dir = target_dir.to_string_lossy().to_string();
    // Build once (sequentially) so that the parallel runs do not fight over the lock.
    let build = std::process::Command::new("cargo")
        .args(["+nightly", "miri", "run", "--offline", "--target-dir", &target_dir, "--", "noop"])
        .current_dir(&dir)
        .env("CARGO_NET_OFFLINE", "true")
        .env("VERIF_SLICE_ROOT", &dir)
        .env_remove("RUSTFLAGS")
        .output();
    match &build {
        Err(_) => {
            rep.inconclusive("miri not runnable");
            return vec![];
        }
        Ok(o) if !o.status.success() => {
            rep.inconclusive("miri slice could not be built / started (tool problem)");
            rep.note(format!("miri {} build: {}", what, String::from_utf8_lossy(&o.stderr).lines().rev().take(4).collect::<Vec<_>>().join(" | ").chars().take(1500).collect::<String>()));
            return vec![];
        }
        Ok(_) => {}
    }
    let res = par_map(shards, crate::util::ncpu(), |sh| {
        let out = std::process::Command::new("cargo")
            .args(["+nightly", "miri", "run", "--offline", "--target-dir", &target_dir, "--", what, &sh.to_string(), &shards.to_string(), &n.to_string()])
            .current_dir(&dir)
            .env("CARGO_NET_OFFLINE", "true")
            .env("VERIF_SLICE_ROOT", &dir)
            .env_remove("RUSTFLAGS")
            .env("MIRIFLAGS", format!("{} -Zmiri-seed={}", flags, sh))
            .output();
        match out {
            Err(e) => (sh, None, format!("spawn: {}", e)),
            Ok(o) => {
                let so = String::from_utf8_lossy(&o.stdout).to_string();
                let se = String::from_utf8_lossy(&o.stderr).to_string();
                let ok_line = so.lines().find(|l| l.starts_with("MIRI-SLICE-OK")).map(|l| l.to_string());
                (sh, ok_line, format!("{}\n{}", so, se))
            }
        }
    });
    let mut oks = Vec::new();
    for (sh, ok, text) in res {
        rep.eval();
        match ok {
            Some(l) => {
                rep.count(&format!("miri.{}.shards_ok", what), 1);
                oks.push(l);
            }
            None => {
                let ub = text.contains("Undefined Behavior") || text.contains("Data race") || text.contains("data race");
                let failed_oracle = text.contains("MIRI-SLICE-FAIL");
                if ub || failed_oracle {
                    let tail: String = text.lines().filter(|l| l.contains("error") || l.contains("MIRI-SLICE-FAIL") || l.contains("-->")).take(8).collect::<Vec<_>>().join(" | ");
                    rep.violation(
                        &format!("miri/{}/{}", what, if ub { "undefined behaviour or data race" } else { "oracle failed under miri" }),
                        json!({"shard": sh, "report": tail}),
                        json!({"engine": "miri", "what": what, "shard": sh, "shards": shards, "n": n, "flags": flags}),
                    );
                } else {
                    rep.inconclusive("miri run failed for another reason (tool problem)");
                    rep.note(format!("miri {} shard {}: {}", what, sh, text.lines().rev().take(3).collect::<Vec<_>>().join(" | ")));
                }
            }
        }
    }
    oks
}
