//! Small shared helpers: deterministic RNG, hashing, hex, paths.
use blake2::{Blake2b512, Digest};
use std::path::{Path, PathBuf};

/// SplitMix64-seeded xoshiro256** — own implementation so that a replay file
/// reproduces the same case whatever crate versions are around.
#[derive(Clone, Debug)]
pub struct Rng {
    s: [u64; 4],
}

pub fn splitmix(x: &mut u64) -> u64 {
    *x = x.wrapping_add(0x9e37_79b9_7f4a_7c15);
    let mut z = *x;
    z = (z ^ (z >> 30)).wrapping_mul(0xbf58_476d_1ce4_e5b9);
    z = (z ^ (z >> 27)).wrapping_mul(0x94d0_49bb_1331_11eb);
    z ^ (z >> 31)
}

impl Rng {
    pub fn new(seed: u64) -> Self {
        let mut x = seed ^ 0x5851_f42d_4c95_7f2d;
        let s = [
            splitmix(&mut x),
            splitmix(&mut x),
            splitmix(&mut x),
            splitmix(&mut x),
        ];
        Rng { s }
    }
    /// Derive an independent stream for sub-case `n`.
    pub fn fork(&self, n: u64) -> Rng {
        let mut x = self.s[0] ^ n.wrapping_mul(0x9e37_79b9_7f4a_7c15) ^ self.s[2].rotate_left(17);
        let s = [
            splitmix(&mut x),
            splitmix(&mut x),
            splitmix(&mut x),
            splitmix(&mut x),
        ];
        Rng { s }
    }
    pub fn next_u64(&mut self) -> u64 {
        let r = self.s[1].wrapping_mul(5).rotate_left(7).wrapping_mul(9);
        let t = self.s[1] << 17;
        self.s[2] ^= self.s[0];
        self.s[3] ^= self.s[1];
        self.s[1] ^= self.s[2];
        self.s[0] ^= self.s[3];
        self.s[2] ^= t;
        self.s[3] = self.s[3].rotate_left(45);
        r
    }
    /// Uniform in [0, n). n must be > 0.
    pub fn below(&mut self, n: u64) -> u64 {
        debug_assert!(n > 0);
        // Multiply-shift; bias is irrelevant for workload generation.
        ((self.next_u64() as u128 * n as u128) >> 64) as u64
    }
    pub fn usize_below(&mut self, n: usize) -> usize {
        self.below(n as u64) as usize
    }
    /// Uniform in [lo, hi] inclusive.
    pub fn range(&mut self, lo: u64, hi: u64) -> u64 {
        lo + self.below(hi - lo + 1)
    }
    pub fn urange(&mut self, lo: usize, hi: usize) -> usize {
        self.range(lo as u64, hi as u64) as usize
    }
    pub fn chance(&mut self, num: u64, den: u64) -> bool {
        self.below(den) < num
    }
    pub fn pick<'a, T>(&mut self, v: &'a [T]) -> &'a T {
        &v[self.usize_below(v.len())]
    }
    pub fn fill(&mut self, buf: &mut [u8]) {
        for c in buf.chunks_mut(8) {
            let v = self.next_u64().to_le_bytes();
            c.copy_from_slice(&v[..c.len()]);
        }
    }
    pub fn bytes(&mut self, n: usize) -> Vec<u8> {
        let mut v = vec![0u8; n];
        self.fill(&mut v);
        v
    }
    pub fn shuffle<T>(&mut self, v: &mut [T]) {
        for i in (1..v.len()).rev() {
            let j = self.usize_below(i + 1);
            v.swap(i, j);
        }
    }
}

pub fn b2(data: &[u8]) -> [u8; 64] {
    let mut h = Blake2b512::new();
    h.update(data);
    let mut out = [0u8; 64];
    out.copy_from_slice(&h.finalize());
    out
}

pub fn hex(b: &[u8]) -> String {
    let mut s = String::with_capacity(b.len() * 2);
    for x in b {
        s.push_str(&format!("{:02x}", x));
    }
    s
}

pub fn unhex(s: &str) -> Vec<u8> {
    (0..s.len() / 2)
        .map(|i| u8::from_str_radix(&s[2 * i..2 * i + 2], 16).unwrap())
        .collect()
}

/// Short printable digest of a byte string for evidence samples.
pub fn short_id(data: &[u8]) -> String {
    hex(&b2(data)[..6])
}

pub fn fnv64(data: &[u8]) -> u64 {
    let mut h: u64 = 0xcbf2_9ce4_8422_2325;
    for b in data {
        h = (h ^ *b as u64).wrapping_mul(0x0000_0100_0000_01b3);
    }
    h
}

pub fn verif_root() -> PathBuf {
    std::env::var_os("VERIF_ROOT")
        .map(PathBuf::from)
        .unwrap_or_else(|| PathBuf::from("/verif"))
}

pub fn work_root() -> PathBuf {
    match std::env::var("VERIF_ROOT_WORK_SUFFIX") {
        Ok(sfx) if !sfx.is_empty() => verif_root().join(format!(".work-{}", sfx)),
        _ => verif_root().join(".work"),
    }
}

pub fn ensure_clean_dir(p: &Path) {
    let _ = std::fs::remove_dir_all(p);
    std::fs::create_dir_all(p).expect("create work dir");
}

pub fn first_diff(a: &[u8], b: &[u8]) -> Option<usize> {
    let n = a.len().min(b.len());
    for i in 0..n {
        if a[i] != b[i] {
            return Some(i);
        }
    }
    if a.len() != b.len() {
        Some(n)
    } else {
        None
    }
}

/// Run `f(i)` for i in 0..n on `threads` worker threads, collecting results in order.
pub fn par_map<T: Send, F: Fn(usize) -> T + Sync>(n: usize, threads: usize, f: F) -> Vec<T> {
    use std::sync::atomic::{AtomicUsize, Ordering};
    use std::sync::Mutex;
    let next = AtomicUsize::new(0);
    let out: Mutex<Vec<Option<T>>> = Mutex::new((0..n).map(|_| None).collect());
    std::thread::scope(|s| {
        for _ in 0..threads.max(1).min(n.max(1)) {
            s.spawn(|| loop {
                let i = next.fetch_add(1, Ordering::SeqCst);
                if i >= n {
                    break;
                }
                let r = match std::panic::catch_unwind(std::panic::AssertUnwindSafe(|| f(i))) {
                    Ok(r) => r,
                    Err(p) => {
                        let msg = p
                            .downcast_ref::<String>()
                            .cloned()
                            .or_else(|| p.downcast_ref::<&str>().map(|s| s.to_string()))
                            .unwrap_or_default();
                        eprintln!("CHECK-BROKEN harness job {} panicked: {}", i, msg);
                        std::process::exit(3);
                    }
                };
                out.lock().unwrap()[i] = Some(r);
            });
        }
    });
    out.into_inner()
        .unwrap()
        .into_iter()
        .map(|x| x.expect("worker result"))
        .collect()
}

pub fn ncpu() -> usize {
    std::thread::available_parallelism()
        .map(|n| n.get())
        .unwrap_or(4)
}

/// Run code under test, turning a panic into Err("panic: <message>").
pub fn catch<T>(f: impl FnOnce() -> T) -> Result<T, String> {
    std::panic::catch_unwind(std::panic::AssertUnwindSafe(f)).map_err(|p| {
        format!(
            "panic: {}",
            p.downcast_ref::<String>()
                .cloned()
                .or_else(|| p.downcast_ref::<&str>().map(|s| s.to_string()))
                .unwrap_or_else(|| "(no message)".into())
        )
    })
}
